"""C06 — a failing algorithm is reported and never wedges the study.

Decides the *operation typestate*: once an RPC has stored a long-running
operation in its open state (Operation.done == False, or
EarlyStoppingOperation.status == ACTIVE), every exit of the RPC — normal or
exceptional — has stored the same operation in a closed state.  An open
operation left behind answers every later call of that worker without ever
reaching the algorithm again, and the client's poll loop has no bound.
"""

from __future__ import annotations

import ast
from typing import Dict, FrozenSet, List, Optional, Set, Tuple

from vzstatic import cfg as cfgmod
from vzstatic import flow
from vzstatic.index import FuncInfo, dotted
from vzstatic.selftest import Variant
from vzstatic.source import ancestors, AnalysisError, loc, stable_text, unparse
from vzstatic.svc import Svc, where

MANIFEST = {
    'technique': ('resource typestate (open/closed long-running operation) by abstract '
                  'interpretation over an exception-aware CFG of the servicer RPCs; '
                  'handler coverage decided with the exception-class lattice'
                  '; retry-loop boundedness and exception-swallowing rules over every algorithm call site (pythia service, default seeding, policies, servicer); alias tracking of operation messages; shared C01.R1/R2, C02.R3, C04.R2'
                  '; raise model extended with format calls on run-time templates inside handlers; poll loop as edge-blocked reachability'),
    'level_text': (
        'Static: for SuggestTrials and CheckTrialEarlyStoppingState, on every path '
        '(including every exceptional edge out of the algorithm call, the metadata write, '
        'unguarded pop() and explicit raises) the operation that was stored open is stored '
        'closed before the RPC exits, failure paths record an error, and the client checks '
        'the error before decoding. Necessary for "never wedges": an operation left open is '
        'returned forever by the active-operation lookup. The dynamic claim that a later '
        'call produces a result is not observed.'),
    'level_note': (
        'Raising events are enumerated (printed in evidence): calls on / creation of the '
        'Pythia service handle raise arbitrary exceptions; datastore.update_metadata raises '
        'its documented NotFoundError; list.pop() without an emptiness guard raises '
        'IndexError; explicit raise. Proto setters, logging, converters and the other '
        'datastore calls are assumed non-raising here (interleaving-induced datastore '
        'errors belong to C04).'),
}

OPEN_FIELDS = {'done': {False: 'open', True: 'closed'}}
STORE_CALLS = {'create_suggestion_operation', 'update_suggestion_operation',
               'create_early_stopping_operation', 'update_early_stopping_operation'}
World = Tuple[FrozenSet[str], FrozenSet[str], FrozenSet[str]]  # stored_open, mem_open, mem_closed


class OpTypestate:

  def __init__(self, ctx, svc: Svc, fi: FuncInfo):
    self.ctx, self.svc, self.fi = ctx, svc, fi
    self.g = cfgmod.CFG(fi.node)
    self.terminators = svc._cut_terminators(self.g, fi, 0)
    self.term_ids = {n.id for n in self.terminators}
    self.rd = flow.ReachingDefs(self.g)
    self.pythia_vars = self._pythia_handles()
    self.events: Dict[int, List[Tuple[str, str]]] = {}
    self.g.add_exception_edges(self._raise_model, self._catches)
    self.acquire_nodes: List[cfgmod.Node] = []
    self.release_nodes: List[cfgmod.Node] = []

  # ---------------------------------------------------------- raise model
  def _pythia_methods(self) -> Set[str]:
    out = set()
    if self.fi.cls is None:
      return out
    for c in self.svc.index.mro(self.fi.cls):
      for m in c.methods.values():
        r = m.node.returns
        if r is not None and 'PythiaService' in ast.unparse(r):
          out.add(m.name)
    return out

  def _pythia_handles(self) -> Set[str]:
    pm = self._pythia_methods()
    self.pythia_methods = pm
    out = set()
    for n in self.g.nodes:
      if n.kind == 'stmt' and isinstance(n.ast, ast.Assign) and isinstance(n.ast.value, ast.Call):
        d = dotted(n.ast.value.func) or ''
        if d.startswith('self.') and d[5:] in pm:
          for t in n.ast.targets:
            if isinstance(t, ast.Name):
              out.add(t.id)
    # attribute handles: self.<attr> annotated PythiaService
    return out

  def _pop_guarded(self, n: cfgmod.Node, lst: str) -> bool:
    """Is node n control-dependent on a truthiness test of list `lst`?"""
    from vzstatic.source import ancestors
    for a in ancestors(n.ast):
      if isinstance(a, (ast.While, ast.If)):
        # n must be in the body (true branch)
        inbody = any(n.ast is x or any(y is n.ast for y in ast.walk(x)) for x in a.body)
        if not inbody:
          continue
        conj = a.test.values if isinstance(a.test, ast.BoolOp) and isinstance(a.test.op, ast.And) else [a.test]
        for c in conj:
          if isinstance(c, ast.Name) and c.id == lst:
            return True
          if isinstance(c, ast.Compare) and isinstance(c.left, ast.Call) and dotted(c.left.func) == 'len' \
              and c.left.args and isinstance(c.left.args[0], ast.Name) and c.left.args[0].id == lst \
              and len(c.ops) == 1 and isinstance(c.ops[0], (ast.Gt, ast.NotEq)) \
              and isinstance(c.comparators[0], ast.Constant) and c.comparators[0].value == 0:
            return True
      if isinstance(a, (ast.FunctionDef, ast.Lambda)):
        break
    return False

  def _raise_model(self, n: cfgmod.Node):
    evs: List[Tuple[str, str]] = []
    if n.id in self.term_ids:
      evs.append(('grpc.RpcError', 'terminating guard'))
    elif n.kind == 'stmt' and isinstance(n.ast, ast.Raise):
      if n.ast.exc is None:
        evs.append(('*', 're-raise'))
      else:
        e = n.ast.exc.func if isinstance(n.ast.exc, ast.Call) else n.ast.exc
        evs.append((self.ctx.lattice.name_of(self.fi.module, e), 'explicit raise'))
    else:
      for c in flow.node_calls(n):
        d = dotted(c.func) or ''
        if d.startswith('self.') and d[5:] in self.pythia_methods:
          evs.append(('*', f'{d}() may fail to reach the algorithm server'))
        elif isinstance(c.func, ast.Attribute) and isinstance(c.func.value, ast.Name) \
            and c.func.value.id in self.pythia_vars:
          evs.append(('*', f'algorithm call {unparse(c.func)}() can raise anything'))
        elif self.svc.ds_call(c) == 'update_metadata':
          evs.append(('vizier._src.service.custom_errors.NotFoundError',
                      'datastore.update_metadata raises NotFoundError for a missing trial'))
        elif isinstance(c.func, ast.Attribute) and c.func.attr == 'pop' and not c.args \
            and isinstance(c.func.value, ast.Name):
          if not self._pop_guarded(n, c.func.value.id):
            evs.append(('IndexError', f'{c.func.value.id}.pop() without an emptiness test'))
        elif isinstance(c.func, ast.Attribute) and c.func.attr == 'format' and not _constant_template(
            flow.resolve_local(self.fi.node, c.func.value)):
          evs.append(('ValueError', f'`{unparse(c.func.value, 40)}.format(..)`: the template contains run-time text, whose braces are parsed '
                      'as replacement fields (KeyError / IndexError / ValueError)'))
      for b in (x for e_ in flow.node_exprs(n) for x in ast.walk(e_)):
        if isinstance(b, ast.BinOp) and isinstance(b.op, ast.Mod) and not _constant_template(flow.resolve_local(self.fi.node, b.left)) \
            and any(isinstance(x, (ast.Constant, ast.JoinedStr)) and isinstance(getattr(x, 'value', ''), str) for x in ast.walk(b.left)):
          evs.append(('ValueError', f'`{unparse(b.left, 40)} % ..`: the template contains run-time text'))
    self.events[n.id] = evs
    return [e for e, _ in evs]

  def _catches(self, h, exc, node):
    return self.ctx.lattice.catches(self.fi.module, h, exc)

  # ------------------------------------------------------------- transfer
  def _ctor_state(self, call: ast.Call) -> Optional[str]:
    d = dotted(call.func) or ''
    if not d.endswith('Operation'):
      return None
    st = 'unknown'
    for k in call.keywords:
      if k.arg == 'done' and isinstance(k.value, ast.Constant):
        st = 'open' if k.value.value is False else 'closed'
      if k.arg == 'status':
        s = dotted(k.value) or ''
        st = 'open' if s.endswith('.ACTIVE') else 'closed' if s.endswith(('.DONE', '.FAILED')) else 'unknown'
    if st == 'unknown' and d.endswith('operations_pb2.Operation'):
      st = 'open'  # proto3 default done=False
    return st

  def _apply(self, n: cfgmod.Node, w: World) -> World:
    so, mo, mc = set(w[0]), set(w[1]), set(w[2])
    a = n.ast
    if n.kind == 'stmt' and isinstance(a, ast.Assign):
      for t in a.targets:
        if isinstance(t, ast.Name):
          mo.discard(t.id)
          mc.discard(t.id)
          if isinstance(a.value, ast.Name) and a.value.id != t.id:
            # `x = y`: both names denote the same message; keep tracking it under the new name
            b_ = a.value.id
            for S in (so, mo, mc):
              if b_ in S:
                S.discard(b_)
                S.add(t.id)
          if isinstance(a.value, ast.Call):
            st = self._ctor_state(a.value)
            if st == 'open':
              mo.add(t.id)
            elif st == 'closed':
              mc.add(t.id)
        elif isinstance(t, ast.Attribute) and isinstance(t.value, ast.Name):
          v = t.value.id
          if t.attr == 'done' and isinstance(a.value, ast.Constant):
            mo.discard(v); mc.discard(v)
            (mc if a.value.value else mo).add(v)
          elif t.attr == 'status':
            s = dotted(a.value) or ''
            mo.discard(v); mc.discard(v)
            if s.endswith('.ACTIVE'):
              mo.add(v)
            elif s.endswith(('.DONE', '.FAILED')):
              mc.add(v)
    for c in flow.node_calls(n):
      m = self.svc.ds_call(c)
      if m in STORE_CALLS and c.args and isinstance(c.args[0], ast.Name):
        v = c.args[0].id
        if v in mo:
          so.add(v)
        elif v in mc:
          so.discard(v)
    return frozenset(so), frozenset(mo), frozenset(mc)

  def run(self):
    init: FrozenSet[World] = frozenset([(frozenset(), frozenset(), frozenset())])

    def transfer(node, st, succ, label):
      if node.kind in ('entry', 'exit', 'raise'):
        return st
      if isinstance(label, tuple) and label[0] == 'exc':
        return st  # the statement did not complete
      return frozenset(self._apply(node, w) for w in st)

    def join(a, b):
      j = a | b
      if len(j) > 256:
        raise AnalysisError('operation typestate: too many worlds')
      return j

    self.state = cfgmod.forward(self.g, init, transfer, join)
    for n in self.g.nodes:
      if n.id not in self.state or n.kind in ('entry', 'exit', 'raise'):
        continue
      for w in self.state[n.id]:
        w2 = self._apply(n, w)
        if w2[0] - w[0]:
          if n not in self.acquire_nodes:
            self.acquire_nodes.append(n)
        if w[0] - w2[0]:
          if n not in self.release_nodes:
            self.release_nodes.append(n)
    return self


def run(ctx) -> None:
  svc = Svc(ctx)
  ctx.rule('R1', 'an operation stored open (done=False / status=ACTIVE) is stored closed on every '
           'exit of the RPC, normal or exceptional', 6)
  ctx.rule('R2', 'every handler that closes an operation after a failure records the error on it', 1)
  ctx.rule('R3', 'client: operation.error is checked before the response is decoded; '
           'FAILED_PRECONDITION maps to [] and anything else is re-raised', 3)
  ctx.rule('R4', 'raising events inside the acquire..release window are enumerated', 2)
  ctx.import_rules('C12', {'R6'}, 'R11', 'the Pythia servicer keeps nothing between requests (no failure memory, no policy cache)')
  ctx.import_rules('C04', {'R2'}, 'R6', 'locks around the algorithm are released when it raises (with-blocks only, acyclic order)')
  ctx.import_rules('C02', {'R3', 'R4', 'R5'}, 'R7', 'over-delivery: every surplus trial gets its own fresh id')
  ctx.import_rules('C01', {'R1', 'R2'}, 'R8', 'whatever the failure paths store still satisfies the trial lifecycle (handler bodies included)')
  ctx.rule('R9', 'no unbounded retry around the algorithm: every handler of a retry loop leaves the loop or is bounded by a counter', 1)
  ctx.rule('R10', 'nothing between the algorithm and the caller swallows its exception: handlers around algorithm calls '
           're-raise or record the error on the operation', 3)
  r9_r10_algorithm_calls(ctx, svc)
  ctx.assume('proto setters, logging, converters and datastore calls other than update_metadata '
             'do not raise inside the window')
  ctx.trust('in-process PythiaServicer.Suggest re-raises RuntimeError; a PythiaService stub raises '
            'grpc.RpcError: the call is modelled as raising an arbitrary Exception subclass')

  analysed = 0
  for name, fi in svc.rpcs.items():
    # instances: RPCs that store an operation through the datastore
    stores = [c for c in flow.calls_in(fi.node) if svc.ds_call(c) in STORE_CALLS]
    if not stores:
      continue
    analysed += 1
    ts = OpTypestate(ctx, svc, fi).run()
    nn, ne = ts.g.stats()
    ctx.count('cfg_nodes', nn)
    ctx.count('cfg_edges', ne)
    if not ts.acquire_nodes:
      raise AnalysisError(f'{name}: stores operations but no open-store site was recognised')
    for an in ts.acquire_nodes:
      ctx.info(f'{name}: operation stored open at {where(fi, an)}: {an!r}')
    # R4: events in the window
    window = ts.g.reachable(ts.acquire_nodes, include_starts=False)
    n_events = 0
    for n in window:
      for exc, why in ts.events.get(n.id, []):
        n_events += 1
        ctx.ok('R4', f'{name}: raising event', where(fi, n), f'{why} [{exc}]')
    ctx.count('raising_events_in_window', n_events)
    # R1: every edge into an exit with a stored-open operation
    for ex, kind in ((ts.g.exit, 'normal return'), (ts.g.raise_exit, 'exception')):
      for p, lab in ex.preds:
        if p.id not in ts.state:
          continue
        is_exc = isinstance(lab, tuple) and lab[0] == 'exc'
        worlds = ts.state[p.id] if is_exc else frozenset(ts._apply(p, w) for w in ts.state[p.id])
        open_vars = sorted({v for w in worlds for v in w[0]})
        if p.id in ts.term_ids and not open_vars:
          continue
        inst = f'{name}: exit via {kind} at line {p.lineno}'
        if open_vars:
          why = ''
          if is_exc:
            evs = [w for e, w in ts.events.get(p.id, []) if e == lab[1]]
            why = f' ({evs[0]}; class {lab[1]} not caught by an enclosing handler)' if evs else ''
          path = ts.g.path(ts.acquire_nodes[0], p, blocked=ts.release_nodes) or []
          ctx.bad('R1', inst, where(fi, p),
                  f'operation `{", ".join(open_vars)}` is still stored open when the RPC exits by '
                  f'{kind}{why}: every later call of this worker is answered from the abandoned '
                  'operation and never reaches the algorithm',
                  construct=f'{_short(p)} -> {kind}{" " + lab[1] if is_exc else ""}',
                  func=fi.qualname, path=path[-8:] + [ex])
        else:
          ctx.ok('R1', inst, where(fi, p), 'no operation left open')
    # R2: handlers inside the window must record the error
    for n in ts.g.nodes:
      if n.kind != 'handler' or n not in window:
        continue
      if isinstance(n.ast.body[-1], ast.Raise):
        continue  # re-raises: R1 decides whether the operation was closed
      has_err = False
      for st in n.ast.body:
        for c in flow.calls_in(st):
          d = dotted(c.func) or ''
          if '.error.' in d or d.endswith('.error.CopyFrom'):
            has_err = True
        for x in ast.walk(st):
          if isinstance(x, ast.Assign):
            for t in x.targets:
              dt = dotted(t) or ''
              if dt.endswith('.failure_message') or '.error.' in dt or dt.endswith('.status'):
                has_err = True
      # Operation.error and Operation.response are members of one oneof: writing the
      # response after the error silently clears the error.
      clobber = None
      seen_err = False
      for st in n.ast.body:
        for x in ast.walk(st):
          d = dotted(x) if isinstance(x, ast.Attribute) else None
          if d and 'error' in d.split('.')[1:] and isinstance(getattr(x, 'ctx', None), ast.Load):
            seen_err = True
          if isinstance(x, ast.Assign):
            for t in x.targets:
              dt = dotted(t) or ''
              if seen_err and 'response' in dt.split('.')[1:]:
                clobber = x
          if isinstance(x, ast.Call) and isinstance(x.func, ast.Attribute) and seen_err \
              and 'response' in (dotted(x.func) or '').split('.')[1:]:
            clobber = x
      if clobber is not None:
        has_err = False
      ctx.check(has_err, 'R2', f'{name}: handler at line {n.lineno}', where(fi, n),
                'failure path records the error on the operation before closing it',
                ('handler writes Operation.response after Operation.error: both are members of one '
                 'oneof, so the error is cleared and the failure is reported as a successful result'
                 if clobber is not None else
                 'handler closes the operation without recording an error: the failure is '
                 'reported to the caller as a successful, empty result'),
                construct=n.ast.type if n.ast.type is not None else 'except', func=fi.qualname)
  ctx.count('rpcs_with_operations', analysed)
  if analysed < 2:
    raise AnalysisError(f'expected SuggestTrials and CheckTrialEarlyStoppingState to store operations; found {analysed}')
  r3_client(ctx)


# ------------------------------------------------------------------ R9, R10
_ALGO_MODULES = ['vizier._src.service.pythia_service', 'vizier._src.pythia.suggest_default',
                 'vizier._src.algorithms.policies.designer_policy', 'vizier._src.service.vizier_service']
_ALGO_CALL_ATTRS = {'suggest', 'early_stop', 'Suggest', 'EarlyStop'}


def _is_algo_call(c: ast.Call) -> bool:
  if isinstance(c.func, ast.Attribute) and c.func.attr in _ALGO_CALL_ATTRS:
    return True
  return isinstance(c.func, ast.Name) and c.func.id in ('suggest_fn', 'early_stop_fn')


def _always_leaves(body: List[ast.stmt]) -> bool:
  """Every path through `body` ends in raise / return / break."""
  for st in body:
    if isinstance(st, (ast.Raise, ast.Return, ast.Break)):
      return True
    if isinstance(st, ast.If) and st.orelse and _always_leaves(st.body) and _always_leaves(st.orelse):
      return True
  return False


def _records_error(body: List[ast.stmt]) -> bool:
  for st in body:
    for x in ast.walk(st):
      if isinstance(x, ast.Call) and isinstance(x.func, ast.Attribute) and x.func.attr == 'CopyFrom' \
          and (dotted(x.func.value) or '').endswith('.error'):
        return True
      if isinstance(x, ast.Assign) and any((dotted(t) or '').endswith(('.error.message', '.error.code', '.failure_message'))
                                           for t in x.targets):
        return True
  return False


def r9_r10_algorithm_calls(ctx, svc: Svc) -> None:
  n_calls = 0
  n_loops = 0
  for q in _ALGO_MODULES:
    mi = ctx.index.need_module(q)
    for fn in [f for f in ast.walk(mi.tree) if isinstance(f, ast.FunctionDef)]:
      calls = [c for c in ast.walk(fn) if isinstance(c, ast.Call) and _is_algo_call(c)
               and next((a for a in ancestors(c) if isinstance(a, (ast.FunctionDef, ast.Lambda))), None) is fn]
      for c in calls:
        n_calls += 1
        trys = [(a, 'body') for a in ancestors(c) if isinstance(a, ast.Try) and any(_inside(c, st) for st in a.body)]
        trys = [t for t, _ in trys if next((a for a in ancestors(t) if isinstance(a, (ast.FunctionDef, ast.Lambda))), None) is fn]
        inst = f'{q.rsplit(".", 1)[-1]}.{fn.name}: {unparse(c.func, 40)}(...) at line {c.lineno}'
        if not trys:
          ctx.ok('R10', inst, c, 'no handler: the exception propagates to the caller')
        for t in trys:
          for h in t.handlers:
            leaves = _always_leaves(h.body)
            raises = any(isinstance(x, ast.Raise) for st in h.body for x in ast.walk(st))
            records = _records_error(h.body)
            loop = next((a for a in ancestors(t) if isinstance(a, (ast.While, ast.For))
                         and next((b for b in ancestors(a) if isinstance(b, (ast.FunctionDef, ast.Lambda))), None) is fn), None)
            hname = unparse(h.type, 40) if h.type is not None else 'bare'
            if loop is not None:
              n_loops += 1
              # bounded: a conditional raise/return/break whose test reads a name that the loop body modifies
              modified = {t2.id for x in ast.walk(loop) if isinstance(x, ast.AugAssign) for t2 in [x.target] if isinstance(t2, ast.Name)}
              bounded = leaves or any(
                  isinstance(x, ast.If) and _always_leaves(x.body) and (flow.names_in(x.test) & modified)
                  for st in h.body for x in ast.walk(st))
              ctx.check(bounded, 'R9', inst + f': handler `{hname}` inside a retry loop', h,
                        'handler leaves the loop or raises after a bounded number of attempts',
                        f'`except {hname}` falls through to the next iteration of the enclosing loop with no bound: an algorithm '
                        'that keeps raising this exception keeps the RPC (and the locks it holds) busy forever instead of '
                        'reporting the failure', construct=f'{fn.name}:retry:{hname}', func=f'{q}.{fn.name}')
              if bounded and not leaves:
                continue  # a bounded retry: the final attempt re-raises; other iterations legitimately continue
            ok = (leaves and raises) or records or (leaves and not any(isinstance(x, ast.Return) and x.value is not None
                                                                      for st in h.body for x in ast.walk(st)) and raises)
            ctx.check(ok, 'R10', inst + f': handler `{hname}`', h,
                      're-raises or records the error on the operation',
                      f'`except {hname}` around the algorithm call neither re-raises on every path nor records the error: the failure '
                      'is swallowed and the caller receives a normal (short) result', construct=f'{fn.name}:swallow:{hname}',
                      func=f'{q}.{fn.name}')
  if n_calls < 5:
    raise AnalysisError(f'only {n_calls} algorithm call sites found in the pythia/policy/service modules')
  if n_loops == 0:
    ctx.ok('R9', 'no retry loop around any algorithm call', 'vizier/_src/service/pythia_service.py', 'algorithm calls are made once')


def _constant_template(e: ast.AST) -> bool:
  """A format template made of string literals only (concatenated or implicitly joined)."""
  if isinstance(e, ast.Constant) and isinstance(e.value, str):
    return True
  if isinstance(e, ast.BinOp) and isinstance(e.op, ast.Add):
    return _constant_template(e.left) and _constant_template(e.right)
  return False


def _fp_handler_ok(body) -> bool:
  """Path walk over the handler of grpc.RpcError: every path on which the status code is FAILED_PRECONDITION returns
  an empty list, every other path raises (tests on the code are followed through locals; any other test is taken to
  be independent of the code)."""
  import copy as _copy

  def fp_test(t, env):
    """(is a test of the code, polarity) — polarity True when the test is true exactly for FAILED_PRECONDITION."""
    neg = False
    while True:
      if isinstance(t, ast.UnaryOp) and isinstance(t.op, ast.Not):
        t, neg = t.operand, not neg
      elif isinstance(t, ast.Name) and t.id in env:
        t = env[t.id]
      else:
        break
    if isinstance(t, ast.Compare) and len(t.ops) == 1 and isinstance(t.ops[0], (ast.Eq, ast.NotEq, ast.Is, ast.IsNot)):
      sides = [t.left, t.comparators[0]]
      is_fp = [isinstance(x, ast.Attribute) and x.attr == 'FAILED_PRECONDITION' for x in sides]
      is_code = [isinstance(x, ast.Call) and isinstance(x.func, ast.Attribute) and x.func.attr == 'code' for x in sides]
      if (is_fp[0] and is_code[1]) or (is_fp[1] and is_code[0]):
        pol = isinstance(t.ops[0], (ast.Eq, ast.Is))
        return True, pol != neg
    return False, None

  outcomes = []  # (fp: True/False/None, terminal)

  def walk(stmts, env, fp):
    for i, st in enumerate(stmts):
      if isinstance(st, ast.Assign) and len(st.targets) == 1 and isinstance(st.targets[0], ast.Name):
        env = dict(env)
        env[st.targets[0].id] = st.value
      elif isinstance(st, ast.If):
        is_code, pol = fp_test(st.test, env)
        rest = stmts[i + 1:]
        if is_code:
          for branch, val in ((st.body, pol), (st.orelse, not pol)):
            if fp is not None and fp != val:
              continue
            walk(list(branch) + rest, env, val)
        else:
          walk(list(st.body) + rest, env, fp)
          walk(list(st.orelse) + rest, env, fp)
        return
      elif isinstance(st, ast.Return):
        empty = isinstance(st.value, (ast.List, ast.Tuple)) and not st.value.elts
        outcomes.append((fp, 'empty' if empty else 'return'))
        return
      elif isinstance(st, ast.Raise):
        outcomes.append((fp, 'raise'))
        return
      elif isinstance(st, (ast.Expr, ast.Pass, ast.AnnAssign, ast.AugAssign, ast.Assign)):
        continue
      else:
        outcomes.append((fp, 'unknown'))
        return
    outcomes.append((fp, 'fallthrough'))

  walk(list(body), {}, None)
  if not any(fp is True and t == 'empty' for fp, t in outcomes):
    return False
  for fp, t in outcomes:
    if fp is True and t != 'empty':
      return False
    if fp is not True and t != 'raise':
      return False
  return True


def _short(n: cfgmod.Node) -> str:
  """Stable short name of the construct at a node (for finding keys)."""
  a = n.ast
  if isinstance(a, ast.Raise):
    e = a.exc.func if isinstance(a.exc, ast.Call) else a.exc
    return 'raise ' + (dotted(e) or '?') if e is not None else 'raise'
  if isinstance(a, ast.Return):
    return 'return ' + (stable_text(a.value) if a.value is not None else '')
  calls = [stable_text(c.func) if dotted(c.func) else '?' for c in flow.node_calls(n)]
  return 'call ' + ','.join(calls[:2]) if calls else type(a).__name__


def _inside(node: ast.AST, root: ast.AST) -> bool:
  return any(x is node for x in ast.walk(root))


def r3_client(ctx) -> None:
  fi = ctx.index.need_func('vizier._src.service.vizier_client.VizierClient.get_suggestions')
  g = cfgmod.CFG(fi.node)
  # (a) decoding is dominated by the error check whose true-branch raises
  decode = [n for n in g.nodes if n.kind == 'stmt' and any(
      isinstance(c.func, ast.Attribute) and c.func.attr == 'FromString' for c in flow.node_calls(n))]
  if not decode:
    raise AnalysisError('get_suggestions: response decoding (FromString) not found')
  err_tests = [n for n in g.nodes if n.kind == 'test' and any(
      isinstance(c.func, ast.Attribute) and c.func.attr == 'HasField' and c.args
      and isinstance(c.args[0], ast.Constant) and c.args[0].value == 'error'
      for c in flow.node_calls(n))]
  ok = False
  for t in err_tests:
    # true branch must not reach decode
    tsucc = [m for m, lab in t.succs if lab == 'T']
    if tsucc and not any(d in g.reachable(tsucc, include_starts=True) for d in decode):
      # and every path entry -> decode passes t
      if not any(d in g.reachable([g.entry], blocked=[t]) for d in decode):
        ok = True
  ctx.check(ok, 'R3', 'get_suggestions: error before decode', decode[0].ast,
            "operation.HasField('error') -> raise dominates response decoding",
            'the response is decoded on a path that did not check operation.error',
            construct=decode[0].ast, func=fi.qualname)
  # (b) poll loop exits only when done
  # every path to the decoding leaves a test of `<operation>.done` on its "done" side (while-not-done,
  # `if op.done: break` inside an unbounded loop, ...)
  done_edges = {}
  for n in g.nodes:
    if n.kind != 'test':
      continue
    t, neg = n.ast, False
    while isinstance(t, ast.UnaryOp) and isinstance(t.op, ast.Not):
      t, neg = t.operand, not neg
    if (dotted(t) or '').endswith('.done'):
      done_edges[n.id] = 'F' if neg else 'T'
  seen, todo = {g.entry.id}, [g.entry]
  while todo:
    n = todo.pop()
    for m, lab in n.succs:
      if done_edges.get(n.id) == lab or m.id in seen:
        continue
      seen.add(m.id)
      todo.append(m)
  polled = bool(done_edges) and not any(d.id in seen for d in decode)
  ctx.check(polled, 'R3', 'get_suggestions: poll loop', fi.node,
            'the response is decoded only after a test saw `operation.done` true (unbounded poll: termination rests on R1)',
            'poll loop on operation.done not found: the response can be decoded before the operation is done',
            construct='poll', func=fi.qualname)
  # (c) FAILED_PRECONDITION -> [] ; else re-raise
  handlers = [n for n in g.nodes if n.kind == 'handler']
  good = False
  for h in handlers:
    names = ctx.lattice.handler_names(fi.module, h.ast)
    if 'grpc.RpcError' not in names:
      continue
    good = _fp_handler_ok(h.ast.body)
  ctx.check(good, 'R3', 'get_suggestions: FAILED_PRECONDITION -> []', fi.node,
            'immutable study maps to an empty list, every other RpcError is re-raised',
            'RpcError handling of SuggestTrials does not map FAILED_PRECONDITION to [] and re-raise the rest',
            construct='rpc-error-map', func=fi.qualname)


_SVC = 'vizier/_src/service/vizier_service.py'
VARIANTS = [
    Variant('narrow-except-metadata', _SVC, '      except KeyError as e:\n        output_op.error.CopyFrom(',
            '      except custom_errors.AlreadyExistsError as e:\n        output_op.error.CopyFrom(', rule='R1'),
    Variant('handler-forgets-done', _SVC,
            """            'Failed to request trials from Pythia for request: %s', request
        )
        output_op.done = True
        self.datastore.update_suggestion_operation(output_op)
        return output_op""",
            """            'Failed to request trials from Pythia for request: %s', request
        )
        return output_op""", rule='R1'),
    Variant('return-before-update', _SVC,
            """      output_op.done = True
      self.datastore.update_suggestion_operation(output_op)
      return output_op

  def GetOperation(""",
            """      output_op.done = True
      return output_op

  def GetOperation(""", rule='R1'),
    Variant('handler-no-error', _SVC,
            """        output_op.error.CopyFrom(
            status_pb2.Status(code=code_pb2.Code.INTERNAL, message=str(e))
        )
        logging.exception(
            'Failed to request trials from Pythia for request: %s', request
        )""",
            """        logging.exception(
            'Failed to request trials from Pythia for request: %s', request
        )""", rule='R2'),
    Variant('client-error-not-raised', 'vizier/_src/service/vizier_client.py',
            "      logging.error(error_message)\n      raise RuntimeError(error_message)",
            "      logging.error(error_message)", rule='R3'),
    Variant('raise-in-window', _SVC,
            "      study_config = svz.StudyConfig.from_proto(study.study_spec)\n      study_descriptor = vz.StudyDescriptor(\n          config=study_config,\n          guid=study_name,\n          max_trial_id=self.datastore.max_trial_id(study_name),\n      )\n      suggest_request",
            "      study_config = svz.StudyConfig.from_proto(study.study_spec)\n      if not study_config.search_space.parameters:\n        raise ValueError('empty search space')\n      study_descriptor = vz.StudyDescriptor(\n          config=study_config,\n          guid=study_name,\n          max_trial_id=self.datastore.max_trial_id(study_name),\n      )\n      suggest_request",
            rule='R1'),
    Variant('benign-rename-list', _SVC, 'new_trials', 'fresh_trials', expect='silent', count=4),
]
