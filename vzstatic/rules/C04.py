"""C04 — concurrent clients are serialisable: the lock discipline.

Decides the lock discipline serialisability rests on, not the schedules:
  R1 lockset/atomicity: every read-modify-write sequence an RPC performs on a
     resource class is covered by one `with <lock table>[...]` region, and any
     two conflicting sequences (typestate-aware for trial rows) share a lock
     table; partial-merge writes (update_metadata) conflict with whole-row
     RMWs of the rows they merge into.
  R2 lock order: nested acquisitions plus re-entry through Pythia form an
     acyclic graph; all acquisitions are `with` statements.
  R3 datastore lock coverage: every access to the shared store happens inside
     one single `with self._lock` region per public method, and no public
     datastore method calls another one (non-atomic or self-deadlocking).
"""

from __future__ import annotations

import ast
from typing import Dict, FrozenSet, List, Optional, Set, Tuple

from vzstatic import cfg as cfgmod
from vzstatic import flow
from vzstatic.index import FuncInfo, dotted
from vzstatic.selftest import Variant
from vzstatic.source import AnalysisError, ancestors, loc, unparse
from vzstatic.svc import Svc, where
from vzstatic.typestate import TypeState

MANIFEST = {
    'technique': ('lockset / atomicity analysis (RacerD-style, specialised): RMW sequences by '
                  'def-use from datastore reads to datastore writes, covering `with` regions, '
                  'typestate-aware conflict test; lock-order graph incl. Pythia re-entry; '
                  'lock-coverage lint of both datastores'
                  '; lock-key kind inference (owner/study/trial) from the uses of the key expression, sibling cross-check per lock table'
                  '; RPC-to-RPC re-entry edges in the lock-order graph'),
    'level_text': (
        'Static: for every pair of conflicting read-modify-write sequences of the servicer the '
        'locksets held across the whole sequence intersect; the lock-order graph is acyclic; '
        'both datastores touch shared state only inside a single lock region per call. These '
        'are necessary for "every interleaving is equivalent to a serial order" (a pair without '
        'a common lock has a lost-update interleaving). The interleavings themselves are not '
        'explored.'),
    'level_note': (
        'Lock identity = lock table attribute (key expressions are checked to derive from the '
        'request but not compared across RPCs). Blind deletes are excluded (delete-before and '
        'delete-after are both serial outcomes). GIL/SQLite behaviour and TOCTOU of the '
        'study-state guard are not decided.'),
}

# datastore method -> (resource class, access)
ACCESS = {
    'get_trial': ('trial', 'read'), 'list_trials': ('trial', 'read'),
    'update_trial': ('trial', 'write'),
    'max_trial_id': ('trial-id', 'read'), 'create_trial': ('trial-id', 'write'),
    'load_study': ('study', 'read'), 'update_study': ('study', 'write'),
    'list_studies': ('study-set', 'read'), 'create_study': ('study-set', 'write'),
    'list_suggestion_operations': ('suggest-op', 'read'),
    'max_suggestion_operation_number': ('suggest-op', 'read'),
    'create_suggestion_operation': ('suggest-op', 'write'),
    'get_early_stopping_operation': ('stop-op', 'read'),
    'create_early_stopping_operation': ('stop-op', 'write'),
    'update_early_stopping_operation': ('stop-op', 'write'),
}
# partial merges: atomic inside the datastore, but they conflict with whole-row RMWs
MERGES = {'update_metadata': ('trial', 'study')}


class Rmw:
  def __init__(self, rpc, resource, read, write, locks, pre, kind='rmw'):
    self.rpc, self.resource, self.read, self.write = rpc, resource, read, write
    self.locks: FrozenSet[str] = locks
    self.pre: Optional[Set[str]] = pre
    self.kind = kind

  def __repr__(self):
    r = f'{self.read.lineno}->' if self.read is not None else ''
    return f'{self.rpc}[{self.resource} {self.kind} lines {r}{self.write.lineno} locks={sorted(self.locks)} pre={sorted(self.pre) if self.pre else "*"}]'


def lock_tables(svc: Svc) -> Set[str]:
  """Attributes of the servicer assigned defaultdict(threading.Lock) in __init__."""
  out = set()
  init = svc.servicer.methods['__init__']
  for n in ast.walk(init.node):
    if isinstance(n, ast.Assign) and isinstance(n.value, ast.Call):
      txt = unparse(n.value, limit=0)
      if 'Lock' in txt:
        for t in n.targets:
          d = dotted(t)
          if d and d.startswith('self.'):
            out.add(d[5:])
  return out


def held_locks(node: cfgmod.Node, tables: Set[str]) -> Dict[str, ast.With]:
  """lock table -> innermost With statement holding it at `node`."""
  out: Dict[str, ast.With] = {}
  a = node.ast
  for anc in ancestors(a):
    if isinstance(anc, ast.With):
      for item in anc.items:
        e = item.context_expr
        base = e.value if isinstance(e, ast.Subscript) else e
        d = dotted(base)
        if d and d.startswith('self.') and d[5:] in tables:
          out.setdefault(d[5:], anc)
    if isinstance(anc, (ast.FunctionDef, ast.Lambda)):
      break
  return out


def rmws_of(ctx, svc: Svc, fi: FuncInfo, tables: Set[str]) -> Tuple[List[Rmw], List[Rmw]]:
  g = svc.rpc_cfg(fi)
  rd = flow.ReachingDefs(g)
  prov = flow.Provenance(g, rd)
  ts = TypeState(svc, fi)
  ts.run()
  pre_by_node: Dict[int, Set[str]] = {}
  for ev in ts.events:
    if ev.kind == 'ds_call' and ev.data[0] == 'update_trial' and ev.val is not None:
      pre_by_node[ev.node.id] = {o for o in ev.val.orig()}
  reads: List[Tuple[cfgmod.Node, ast.Call, str]] = []
  writes: List[Tuple[cfgmod.Node, ast.Call, str]] = []
  merges: List[Rmw] = []
  for n in g.nodes:
    if n.kind in ('entry', 'exit', 'raise'):
      continue
    for c in flow.node_calls(n):
      m = svc.ds_call(c)
      if m in ACCESS:
        (reads if ACCESS[m][1] == 'read' else writes).append((n, c, m))
      elif m in MERGES:
        locks = frozenset(held_locks(n, tables))
        for res in MERGES[m]:
          merges.append(Rmw(fi.name, res, None, n, locks, None, kind='merge'))
  out: List[Rmw] = []
  for wn, wc, wm in writes:
    res = ACCESS[wm][0]
    # which reads of the same resource class flow into the written object?
    origins = set()
    if res == 'trial-id' and wc.args and isinstance(wc.args[0], ast.Name):
      # id allocation: only reads that flow into the id/name fields of the created
      # object (data that went to the algorithm and came back is not an id read)
      x = wc.args[0].id
      for d in rd.at(wn, x):
        dn = g.nodes[d.node_id] if d.node_id >= 0 else None
        if d.kind == 'attrstore' and dn is not None and isinstance(dn.ast, ast.Assign) and any(
            isinstance(t, ast.Attribute) and t.attr in ('id', 'name') and isinstance(t.value, ast.Name)
            and t.value.id == x for t in dn.ast.targets):
          origins |= prov.origins(d.value, dn)
    if not origins:
      for a in list(wc.args) + [k.value for k in wc.keywords]:
        origins |= prov.origins(a, wn)
    src_reads = []
    for rn, rc, rm in reads:
      if ACCESS[rm][0] != res:
        continue
      if any(k == 'call' and v is rc for k, v in origins):
        src_reads.append(rn)
    if not src_reads:
      # check-then-act: a read of the same class that dominates the write (e.g.
      # list_studies ... create_study, get_early_stopping_operation ... create)
      for rn, rc, rm in reads:
        if ACCESS[rm][0] == res and wn in g.reachable([rn]) and res in ('study-set', 'suggest-op', 'stop-op'):
          src_reads.append(rn)
    wl = held_locks(wn, tables)
    for rn in src_reads:
      rl = held_locks(rn, tables)
      covering = frozenset(t for t in wl if t in rl and wl[t] is rl[t])
      out.append(Rmw(fi.name, res, rn, wn, covering, pre_by_node.get(wn.id)))
  return out, merges


def run(ctx) -> None:
  svc = Svc(ctx)
  ctx.rule('R1', 'every read-modify-write sequence on a resource class is covered by one lock '
           'region, and conflicting sequences of any two RPCs share a lock table', 10)
  ctx.rule('R2', 'lock-order graph (nesting + Pythia re-entry) is acyclic; acquisitions are `with`', 2)
  ctx.rule('R3', 'datastores access shared state only inside a single `with self._lock` region per '
           'public method and never call their own public methods', 40)
  ctx.rule('R4', 'all acquisitions of one lock table are keyed by the same kind of resource name (owner / study / trial)', 12)
  ctx.import_rules('C01', {'R3'}, 'R6', 'what a handler decided on (study state, persisted algorithm state) is read inside the critical section that writes')
  ctx.import_rules('C05', {'R1', 'R2'}, 'R7', 'SQL backend: each datastore call is one committed transaction (a serial order of calls exists only then)')
  ctx.import_rules('C07', {'R10'}, 'R5', 'a trial write that races with an unlocked DeleteTrial fails instead of re-creating the trial (update never inserts)')
  tables = lock_tables(svc)
  if len(tables) < 3:
    raise AnalysisError(f'lock tables of the servicer not found (got {sorted(tables)})')
  ctx.info(f'lock tables: {sorted(tables)}')
  all_rmw: List[Rmw] = []
  all_merge: List[Rmw] = []
  for name, fi in svc.rpcs.items():
    r, m = rmws_of(ctx, svc, fi, tables)
    all_rmw += r
    all_merge += m
  ctx.count('rmw_sequences', len(all_rmw))
  ctx.count('merge_writes', len(all_merge))
  ctx.extra['rmw_sequences'] = [repr(r) for r in all_rmw] + [repr(r) for r in all_merge]
  if len(all_rmw) < 8:
    raise AnalysisError(f'only {len(all_rmw)} RMW sequences recognised (>= 10 on the pinned tree)')
  # R1a: each RMW covered by one region
  for r in all_rmw:
    fi = svc.rpcs[r.rpc]
    ctx.check(bool(r.locks), 'R1', f'{r.rpc}: {r.resource} read@{r.read.lineno} -> write@{r.write.lineno} covered',
              where(fi, r.write), f'read and write inside one region of {sorted(r.locks)}',
              f'the read (line {r.read.lineno}) and the write (line {r.write.lineno}) of this '
              f'read-modify-write on `{r.resource}` are not inside one common lock region: another '
              'call can change the resource in between (lost update / double hand-out)',
              construct=f'{r.resource}:{_short(r.read)}->{_short(r.write)} uncovered', func=fi.qualname)
  # R1b: pairwise
  seen = set()
  for i, a in enumerate(all_rmw):
    for b in all_rmw[i:] + all_merge:
      if a.resource != b.resource:
        continue
      if a.resource == 'trial' and a.pre is not None and b.pre is not None and not (a.pre & b.pre):
        continue  # typestate-disjoint: can never both be between read and write on one row
      key = (a.rpc, b.rpc, a.resource, _short(a.write), _short(b.write), b.kind, tuple(sorted(a.locks)), tuple(sorted(b.locks)))
      if key in seen:
        continue
      seen.add(key)
      common = a.locks & b.locks
      fi = svc.rpcs[a.rpc]
      what = 'metadata merge' if b.kind == 'merge' else 'read-modify-write'
      ctx.check(bool(common), 'R1', f'{a.rpc} x {b.rpc}: {a.resource} ({b.kind})', where(fi, a.write),
                f'common lock {sorted(common)}',
                f'{a.rpc} (locks {sorted(a.locks) or "none"}) and the {what} of {b.rpc} '
                f'(locks {sorted(b.locks) or "none"}) on `{a.resource}` hold no common lock: '
                + ('two creators can read the same max id and create two trials with one id'
                   if a.resource == 'trial-id' else
                   'the whole-row write-back overwrites the concurrent update (lost update)'),
                construct=f'{a.resource}:{a.rpc}/{_short(a.write)} x {b.rpc}/{_short(b.write)}/{b.kind}',
                func=fi.qualname)
  r2_lock_order(ctx, svc, tables)
  r3_datastores(ctx, svc)
  r4_lock_keys(ctx, svc, tables)


# ----------------------------------------------------------------------- R4
_KIND_OF_PARAM = {'study_name': 'study', 'trial_name': 'trial', 'owner_name': 'owner'}
_KIND_OF_RESOURCE = {'StudyResource': 'study', 'TrialResource': 'trial', 'OwnerResource': 'owner'}


def _name_kinds(ctx, svc: Svc, fi: FuncInfo) -> Dict[str, Set[str]]:
  """expression text -> resource kinds it names, from how the function uses it.

  Evidence: passed as the first argument to a datastore method / servicer helper whose first
  parameter is called study_name / trial_name / owner_name; passed to XResource.from_name;
  defined as `<...>.study_resource.name` / `.owner_resource.name` / `XResource(..).name`.
  Aliases (v = request.parent) share the kinds of what they alias.
  """
  kinds: Dict[str, Set[str]] = {}
  alias: Dict[str, str] = {}
  ds = ctx.index.need_class('vizier._src.service.datastore.DataStore')
  for n in ast.walk(fi.node):
    if isinstance(n, ast.Assign) and len(n.targets) == 1 and isinstance(n.targets[0], ast.Name):
      v, e = n.targets[0].id, n.value
      t = unparse(e, 0)
      if isinstance(e, ast.Attribute) and e.attr == 'name':
        inner = unparse(e.value, 0)
        if inner.endswith('study_resource') or 'StudyResource' in inner.split('(')[0]:
          kinds.setdefault(v, set()).add('study')
        elif inner.endswith('owner_resource') or 'OwnerResource' in inner.split('(')[0]:
          kinds.setdefault(v, set()).add('owner')
        elif inner.endswith('trial_resource') or 'TrialResource' in inner.split('(')[0]:
          kinds.setdefault(v, set()).add('trial')
      elif isinstance(e, (ast.Attribute, ast.Name)):
        alias[v] = t
    if isinstance(n, ast.Call) and n.args:
      a0 = unparse(n.args[0], 0)
      d = dotted(n.func) or ''
      last = d.rsplit('.', 1)[-1]
      m = svc.ds_call(n)
      if m is not None and m in ds.methods:
        ps = [p for p in ds.methods[m].params if p != 'self']
        if ps and ps[0] in _KIND_OF_PARAM:
          kinds.setdefault(a0, set()).add(_KIND_OF_PARAM[ps[0]])
      elif last == 'from_name':
        cls = d.rsplit('.', 2)[-2] if d.count('.') else ''
        if cls in _KIND_OF_RESOURCE:
          kinds.setdefault(a0, set()).add(_KIND_OF_RESOURCE[cls])
      elif d.startswith('self.') and d.count('.') == 1 and last in svc.servicer.methods:
        ps = [p for p in svc.servicer.methods[last].params if p != 'self']
        if ps and ps[0] in _KIND_OF_PARAM:
          kinds.setdefault(a0, set()).add(_KIND_OF_PARAM[ps[0]])
  # propagate through aliases (both directions: same value)
  for _ in range(3):
    for v, t in alias.items():
      u = kinds.get(v, set()) | kinds.get(t, set())
      if u:
        kinds[v] = set(u)
        kinds[t] = set(u)
  return kinds


def r4_lock_keys(ctx, svc: Svc, tables: Set[str]) -> None:
  """All acquisitions of one lock table are keyed by the same kind of resource name.

  The tables are defaultdicts: a key of another kind (a trial name where the study name is
  meant) silently creates a fresh, private lock, so the region no longer excludes anybody.
  """
  sites = []  # (table, kind set, fi, with node, key text)
  for name, fi in svc.rpcs.items():
    kinds = None
    for n in ast.walk(fi.node):
      if not isinstance(n, ast.With):
        continue
      for item in n.items:
        e = item.context_expr
        if not isinstance(e, ast.Subscript):
          continue
        d = dotted(e.value)
        if not (d and d.startswith('self.') and d[5:] in tables):
          continue
        if kinds is None:
          kinds = _name_kinds(ctx, svc, fi)
        key = unparse(e.slice, 0)
        if isinstance(e.slice, ast.Tuple):
          # a composite key can never be the key another RPC uses for the same rows
          sites.append((d[5:], frozenset({f'composite of {len(e.slice.elts)} values'}), fi, n, key))
          continue
        sites.append((d[5:], frozenset(kinds.get(key, set())), fi, n, key))
  if len(sites) < 12:
    raise AnalysisError(f'only {len(sites)} keyed lock acquisitions found (15 on the pinned tree)')
  by_table: Dict[str, Dict[str, int]] = {}
  for t, ks, fi, n, key in sites:
    if len(ks) == 1:
      k = next(iter(ks))
      by_table.setdefault(t, {}).setdefault(k, 0)
      by_table[t][k] += 1
  for t, ks, fi, n, key in sites:
    votes = by_table.get(t, {})
    if not votes:
      ctx.info(f'R4: no classified key for lock table {t}')
      continue
    major = max(votes, key=lambda k: votes[k])
    if not ks:
      ctx.ok('R4', f'{fi.name}: {t}[{key}]', where(fi, n), 'key kind not classifiable from its uses (no evidence against)')
      continue
    ctx.check(ks == {major}, 'R4', f'{fi.name}: {t}[{key}]', where(fi, n),
              f'key names a {major} like the other {votes[major]} acquisitions of this table',
              f'`{key}` names a {"/".join(sorted(ks))} (it is used as one in this method) but every other acquisition of '
              f'{t} is keyed by a {major} name: the defaultdict hands out a different lock object, so this region '
              'is not mutually exclusive with the other writers of the same rows (lost update / resurrected state)',
              construct=f'{t}[{"/".join(sorted(ks))}]', func=fi.qualname)


def _short(n) -> str:
  calls = [(dotted(c.func) or '?').replace('self.datastore.', '') for c in flow.node_calls(n)]
  return ','.join(calls[:1]) if calls else type(n.ast).__name__


# ----------------------------------------------------------------------- R2
def r2_lock_order(ctx, svc: Svc, tables: Set[str]) -> None:
  edges: Dict[Tuple[str, str], str] = {}
  acquires: Dict[str, Set[str]] = {}
  for name, fi in svc.rpcs.items():
    acq = set()
    for n in ast.walk(fi.node):
      if isinstance(n, ast.With):
        inner = set()
        for item in n.items:
          e = item.context_expr
          base = e.value if isinstance(e, ast.Subscript) else e
          d = dotted(base)
          if d and d.startswith('self.') and d[5:] in tables:
            inner.add(d[5:])
        acq |= inner
        if inner:
          outer = set()
          for anc in ancestors(n):
            if isinstance(anc, ast.With):
              for item in anc.items:
                e = item.context_expr
                base = e.value if isinstance(e, ast.Subscript) else e
                d = dotted(base)
                if d and d.startswith('self.') and d[5:] in tables:
                  outer.add(d[5:])
          for o in outer:
            for i in inner:
              edges[(o, i)] = f'{name}: nested with at {fi.file}:{n.lineno}'
    acquires[name] = acq
  # explicit acquire()/release() anywhere in the service package
  n_explicit = 0
  for f in ('vizier/_src/service/vizier_service.py', 'vizier/_src/service/ram_datastore.py',
            'vizier/_src/service/sql_datastore.py', 'vizier/_src/service/pythia_service.py',
            'vizier/_src/service/service_policy_supporter.py', 'vizier/_src/service/vizier_server.py',
            'vizier/_src/service/vizier_client.py'):
    tree = ctx.src.parse(f)
    for n in ast.walk(tree):
      if isinstance(n, ast.Call) and isinstance(n.func, ast.Attribute) and n.func.attr in ('acquire', 'release'):
        n_explicit += 1
        ctx.bad('R2', f'explicit {n.func.attr}()', loc(n),
                'lock taken/released outside a `with` statement (not exception safe)',
                construct=n, func=f)
  ctx.check(n_explicit == 0, 'R2', 'all acquisitions are with-statements', 'vizier/_src/service',
            'no explicit acquire()/release()', 'explicit acquire/release present', construct='acquire')
  # Pythia re-entry: RPCs that the policy supporter calls on the Vizier service
  sup = ctx.index.need_class('vizier._src.service.service_policy_supporter.ServicePolicySupporter')
  reentered = set()
  for m in sup.methods.values():
    for c in flow.calls_in(m.node):
      d = dotted(c.func) or ''
      if d.startswith('self._vizier_service.'):
        reentered.add(d.rsplit('.', 1)[1])
  if not reentered:
    raise AnalysisError('ServicePolicySupporter: no calls on self._vizier_service found')
  ctx.info(f'RPCs re-entered through Pythia: {sorted(reentered)}')
  for name, fi in svc.rpcs.items():
    for n in ast.walk(fi.node):
      if isinstance(n, ast.Call) and isinstance(n.func, ast.Attribute) and n.func.attr in ('Suggest', 'EarlyStop'):
        held = set()
        for anc in ancestors(n):
          if isinstance(anc, ast.With):
            for item in anc.items:
              e = item.context_expr
              base = e.value if isinstance(e, ast.Subscript) else e
              d = dotted(base)
              if d and d.startswith('self.') and d[5:] in tables:
                held.add(d[5:])
        for h in held:
          for r in reentered:
            for l in acquires.get(r, ()):
              edges[(h, l)] = f'{name} holds {h} while Pythia re-enters {r}, which takes {l}'
  # direct re-entry: an RPC handler calling another RPC handler of the same servicer while holding a lock
  for name, fi in svc.rpcs.items():
    for n in ast.walk(fi.node):
      if isinstance(n, ast.Call) and isinstance(n.func, ast.Attribute) and isinstance(n.func.value, ast.Name) \
          and n.func.value.id == 'self' and n.func.attr in svc.rpcs and n.func.attr != name:
        held = set()
        for anc in ancestors(n):
          if isinstance(anc, ast.With):
            for item in anc.items:
              e = item.context_expr
              base = e.value if isinstance(e, ast.Subscript) else e
              d = dotted(base)
              if d and d.startswith('self.') and d[5:] in tables:
                held.add(d[5:])
        for h in held:
          for l in acquires.get(n.func.attr, ()):
            edges[(h, l)] = f'{name} holds {h} while it calls self.{n.func.attr}(), which takes {l}'
  # cycle detection
  graph: Dict[str, Set[str]] = {}
  for (a, b) in edges:
    graph.setdefault(a, set()).add(b)
  cyc = None
  for (a, b), why in edges.items():
    # is a reachable from b?
    seen, stack = set(), [b]
    while stack:
      x = stack.pop()
      if x == a:
        cyc = (a, b, why)
        break
      if x in seen:
        continue
      seen.add(x)
      stack.extend(graph.get(x, ()))
    if cyc:
      break
  ctx.check(cyc is None, 'R2', 'lock-order graph acyclic', 'vizier/_src/service/vizier_service.py',
            f'{len(edges)} edge(s): {sorted(edges)}',
            f'lock-order cycle through {cyc[0]} -> {cyc[1]}: {cyc[2]} (threading.Lock is not '
            're-entrant: deadlock)' if cyc else '', construct=f'cycle {cyc[0]}->{cyc[1]}' if cyc else 'cycle')


# ----------------------------------------------------------------------- R3
def r3_datastores(ctx, svc: Svc) -> None:
  public = {m.name for m in svc.ds_abstract}
  for cls, shared in ((svc.ram, ('self._owners',)), (svc.sql, ('self._connection',))):
    for m in svc.ds_abstract:
      impl = cls.methods.get(m.name)
      if impl is None:
        raise AnalysisError(f'{cls.name} lacks {m.name}')
      regions = []
      accesses = []
      for n in ast.walk(impl.node):
        if isinstance(n, ast.With) and any(dotted(i.context_expr) == 'self._lock' for i in n.items):
          regions.append(n)
        if isinstance(n, ast.Attribute) and dotted(n) in shared:
          accesses.append(n)
        if isinstance(n, ast.Call):
          d = dotted(n.func) or ''
          if d.startswith('self.') and d.count('.') == 1:
            callee = d[5:]
            if callee in public:
              accesses.append(n)  # public method: takes the lock itself
            elif callee in cls.methods and callee != impl.name:
              # private helper touching shared state counts as an access at the call site
              helper = cls.methods[callee]
              if any(isinstance(x, ast.Attribute) and dotted(x) in shared for x in ast.walk(helper.node)):
                accesses.append(n)
      bad = None
      region_of = set()
      for a in accesses:
        enclosing = [r for r in regions if any(x is a for x in ast.walk(r))]
        if isinstance(a, ast.Call) and (dotted(a.func) or '')[5:] in public:
          bad = (a, 'calls its own public method '
                 + ('inside the lock region (threading.Lock is not re-entrant: deadlock)' if enclosing
                    else 'outside a lock region: the read-modify-write it builds is not atomic'))
          break
        if not enclosing:
          bad = (a, 'accesses the shared store outside `with self._lock`')
          break
        region_of.add(id(enclosing[0]))
      if bad is None and len(region_of) > 1:
        bad = (accesses[0], f'spreads its accesses over {len(region_of)} separate lock regions: not one atomic step')
      ctx.check(bad is None, 'R3', f'{cls.name}.{m.name}', impl.node,
                f'{len(accesses)} shared-state access(es) inside one lock region',
                bad[1] if bad else '', construct=bad[0] if bad else None, func=impl.qualname)


_SVC = 'vizier/_src/service/vizier_service.py'
VARIANTS = [
    Variant('complete-without-lock', _SVC,
            """    with self._study_name_to_lock[study_name]:
      trial = self.datastore.get_trial(request.name)
      if trial.state not in self._TRIAL_MUTABLE_STATES:
        e = custom_errors.ImmutableTrialError(
            'Trial {} has state {}. Only trials in state ACTIVE or STOPPING '
            'can be completed.'.format(""",
            """    if True:
      trial = self.datastore.get_trial(request.name)
      if trial.state not in self._TRIAL_MUTABLE_STATES:
        e = custom_errors.ImmutableTrialError(
            'Trial {} has state {}. Only trials in state ACTIVE or STOPPING '
            'can be completed.'.format(""", rule='R1'),
    Variant('stop-uses-owner-lock', _SVC,
            """    with self._study_name_to_lock[study_name]:
      trial = self.datastore.get_trial(request.name)
      if trial.state == study_pb2.Trial.ACTIVE:""",
            """    with self._owner_name_to_lock[study_name]:
      trial = self.datastore.get_trial(request.name)
      if trial.state == study_pb2.Trial.ACTIVE:""", rule='R1'),
    Variant('listtrials-takes-operation-lock', _SVC,
            """    list_of_trials = self.datastore.list_trials(request.parent)
    return vizier_service_pb2.ListTrialsResponse(trials=list_of_trials)""",
            """    with self._operation_lock[request.parent]:
      list_of_trials = self.datastore.list_trials(request.parent)
    return vizier_service_pb2.ListTrialsResponse(trials=list_of_trials)""", rule='R2'),
    Variant('ram-owners-outside-lock', 'vizier/_src/service/ram_datastore.py',
            """    with self._lock:
      try:
        del self._owners[resource.owner_id].studies[resource.study_id]""",
            """    if True:
      try:
        del self._owners[resource.owner_id].studies[resource.study_id]""", rule='R3'),
    Variant('create-study-no-owner-lock', _SVC,
            '    with self._owner_name_to_lock[request.parent]:\n      # Database creates',
            '    if True:\n      # Database creates', rule='R1'),
    Variant('benign-rename-lock-table', _SVC, '_study_name_to_lock', '_study_locks', expect='silent', count=13),
]
