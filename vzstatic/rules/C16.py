"""C16 — search-space definitions are validated, membership is decided correctly.

Structural clauses:
  R1 ParameterConfig.factory: on every path to the constructor call the name
     was checked non-empty, bounds passed _validate_bounds (finite and ordered)
     on both numeric arms, feasible values passed the duplicate check and the
     sort (and finiteness for numbers), mixed kinds raise;
  R2 SearchSpace.add raises on a duplicate name before it stores;
  R3 children under continuous parameters are rejected: subspace() raises for
     every parameter with infinitely many values, and every DOUBLE has
     infinitely many values (no finite special case);
  R4 assert_contains: conditional spaces are refused first, then the size test,
     then per parameter presence and ParameterConfig.contains; contains()
     converts exactly InvalidParameterError to False;
  R5 _assert_feasible dispatches on every ParameterType with the matching
     accessor and ends in raise; ParameterConfig.contains catches exactly
     (TypeError, ValueError); the integrality test of assert_correct_type is an
     exact comparison;
  R6 Study.add_trial validates against the search space it just fetched from
     the service, on every path before the service call;
  R7 walking a space one parameter at a time validates every chosen value
     (get_subspace_deepcopy validates on every path for the four value types);
  R8 SearchSpace.add keeps a reference and rewrites the config's parent values,
     so no config object is added to two subspaces (fresh object per innermost
     loop iteration at every `.add(x)` site of the definition/conversion code).
The biconditional over all assignments (values such as 1 == 1.0 == True) is
not decided.
"""

from __future__ import annotations

import ast
from typing import Dict, List, Optional, Set

from vzstatic import cfg as cfgmod
from vzstatic import flow
from vzstatic.index import FuncInfo, dotted
from vzstatic.selftest import Variant
from vzstatic.source import AnalysisError, ancestors, loc, unparse

MANIFEST = {
    'technique': ('validator-dominates-constructor rules on the CFG of ParameterConfig.factory, '
                  'check-before-store ordering, dispatch-table totality on ParameterType, '
                  'handler exactness, provenance of the search space used by add_trial'
                  '; must-pass-through formulation of the factory validators; member-wise evaluation of the feasibility dispatch; one config object per subspace (loop-invariant argument of SearchSpace.add)'
                  '; normaliser-only-reorders check; shallow-copy-then-mutate lint; cast-before-lookup dataflow on the children table; children-table truthiness lint; finite-model interpretation of the bounds-membership function (closed interval)'),
    'level_text': (
        'Static: every path that builds a parameter definition passes the documented validators; '
        'membership tests are performed in the documented order with the documented accessors and '
        'exception classes; the client validates added trials against the current space; the '
        'sequential walk validates every chosen value. Necessary conditions of the stated '
        'behaviour for all definitions/assignments; the value-level biconditional is not decided.'),
    'level_note': 'Trusted: math.isfinite, sorted, set semantics.',
}

PCMOD = 'vizier._src.pyvizier.shared.parameter_config'



def _last(c: ast.Call) -> str:
  """Last component of the called name: `_f(..)`, `cls._f(..)`, `self._f(..)`, `Cls._f(..)` all name `_f`."""
  d = dotted(c.func) or ''
  head, _, tail = d.rpartition('.')
  return tail if head.count('.') == 0 else ''


def _anchor_fn(mod, name: str):
  """A private helper by name, wherever the module keeps it (module level, or a static/class method)."""
  if name in mod.functions:
    return mod.functions[name]
  for ci in mod.classes.values():
    if name in ci.methods:
      return ci.methods[name]
  return None


def _calls_named(node, name) -> List[ast.Call]:
  return [c for c in flow.calls_in(node) if (dotted(c.func) or '').split('.')[-1] == name]


def run(ctx) -> None:
  ctx.rule('R1', 'ParameterConfig.factory validates name, bounds and feasible values on every path to the constructor', 6)
  ctx.rule('R2', 'SearchSpace.add: duplicate check before store', 1)
  ctx.rule('R3', 'children under continuous parameters are rejected', 2)
  ctx.rule('R4', 'assert_contains decides membership correctly (finite model); contains() converts exactly InvalidParameterError', 2)
  ctx.rule('R5', 'feasibility dispatch total with matching accessors; exact handler; exact integrality test', 4)
  ctx.rule('R6', 'Study.add_trial validates against the freshly fetched search space before the service call', 1)
  ctx.rule('R7', 'sequential walk validates every chosen value', 2)
  ctx.import_rules('C09', {'R8'}, 'R12', 'a conditional space keeps one definition per (parent value, child) through study creation: children are never merged')
  ctx.rule('R11', '"has children" is decided on child parameter configs, never on the `_children` table being non-empty '
           '(subspace() look-ups leave empty entries there)', 1)
  ctx.rule('R10', 'subspaces are looked up under the internal representation of the parent value (the representation they are stored under)', 2)
  ctx.rule('R9', 'a copy of a config / search space that is then modified in place is a deep copy (a shallow copy shares the '
           'children tables with the original)', 1)
  ctx.rule('R13', 'numeric membership is the closed interval of the bounds: the raising bounds test, evaluated on a finite model '
           '(bounds (2, 5); values 1, 2, 3, 5, 6), rejects exactly the values outside', 1)
  ctx.rule('R8', 'one ParameterConfig object per subspace: `.add(x)` inside a loop gets a new object per innermost iteration', 4)
  mod = ctx.index.need_module(PCMOD)
  pc = mod.classes.get('ParameterConfig')
  ss = mod.classes.get('SearchSpace')
  if pc is None or ss is None:
    raise AnalysisError('ParameterConfig / SearchSpace not found')
  r1_factory(ctx, mod, pc)
  r2_add(ctx, ss)
  r3_children(ctx, pc)
  r4_contains(ctx, ss)
  r5_feasible(ctx, pc)
  r6_add_trial(ctx)
  r7_walk(ctx, pc)
  r8_unique_config_objects(ctx, ss)
  r9_deep_clones(ctx)
  r10_children_keys(ctx)
  r11_children_emptiness(ctx)
  r13_bounds_membership(ctx, mod)


# ----------------------------------------------------------------------- R8
_R8_MODULES = ['vizier._src.pyvizier.shared.parameter_config', 'vizier._src.pyvizier.shared.parameter_iterators',
               'vizier._src.pyvizier.oss.proto_converters']


def r8_unique_config_objects(ctx, ss) -> None:
  """SearchSpace.add stores a *reference* and rewrites its `_matching_parent_values`.

  So one ParameterConfig object must never be added to two subspaces: inside a
  loop, the argument of `.add(x)` has to be a new object per innermost iteration
  (a call such as copy.deepcopy(..) / a constructor, the innermost loop's own
  element, or a local assigned in the innermost loop body).
  """
  add = ss.methods.get('add')
  if add is None:
    raise AnalysisError('SearchSpace.add not found')
  p0 = add.params[1] if len(add.params) > 1 else None
  mutates = any(isinstance(t, ast.Attribute) and isinstance(t.value, ast.Name) and t.value.id == p0
                for n in ast.walk(add.node) if isinstance(n, ast.Assign) for t in n.targets)
  if not mutates:
    ctx.info('R8: SearchSpace.add no longer writes to its argument; sharing would only alias')
  sites = 0
  for q in _R8_MODULES:
    mi = ctx.index.need_module(q)
    for c in ast.walk(mi.tree):
      if not (isinstance(c, ast.Call) and isinstance(c.func, ast.Attribute) and c.func.attr == 'add'
              and len(c.args) == 1 and not c.keywords):
        continue
      loops = [a for a in ancestors(c) if isinstance(a, (ast.For, ast.While))]
      fn = next((a for a in ancestors(c) if isinstance(a, (ast.FunctionDef, ast.Lambda))), None)
      if not loops or fn is None:
        continue
      inner = loops[0]
      # loops outside the enclosing function do not count
      arg = c.args[0]
      sites += 1
      inst = f'{q.rsplit(".", 1)[-1]}:{getattr(fn, "name", "lambda")}: {unparse(c, 60)}'
      if isinstance(arg, ast.Call):
        ctx.ok('R8', inst, c, 'argument is a fresh object per call')
        continue
      if not isinstance(arg, ast.Name):
        ctx.ok('R8', inst, c, 'argument is not a plain local (element/attribute access)')
        continue
      tnames = {n.id for n in ast.walk(inner.target) if isinstance(n, ast.Name)} if isinstance(inner, ast.For) else set()
      assigned_inside = any(isinstance(n, ast.Assign) and any(isinstance(t, ast.Name) and t.id == arg.id for t in n.targets)
                            for st in inner.body for n in ast.walk(st))
      outer_targets = set()
      for l in loops[1:]:
        if isinstance(l, ast.For):
          outer_targets |= {n.id for n in ast.walk(l.target) if isinstance(n, ast.Name)}
      invariant = arg.id not in tnames and not assigned_inside
      ctx.check(not invariant, 'R8', inst, c,
                'argument is the innermost loop element / assigned in the innermost loop body',
                f'`{arg.id}` is the same object on every iteration of the innermost loop: it is stored by reference in several '
                'subspaces and SearchSpace.add overwrites its matching parent values each time (all copies end up active for the '
                'last parent value only; later edits of one subspace change the others)',
                construct=f'{getattr(fn, "name", "lambda")}:add({arg.id})', func=q)
  if sites < 4:
    raise AnalysisError(f'R8: only {sites} `.add(x)` sites inside loops found (4 confirmed by hand)')


def r1_factory(ctx, mod, pc) -> None:
  fi = pc.methods['factory']
  g = cfgmod.CFG(fi.node)
  ctor = [n for n in g.nodes if any(dotted(c.func) == 'cls' for c in flow.node_calls(n))]
  if not ctor:
    raise AnalysisError('factory: constructor call cls(...) not found')
  cn = ctor[0]

  def raising_test(pred) -> List[cfgmod.Node]:
    """test nodes whose true branch raises and whose text satisfies pred."""
    out = []
    for n in g.nodes:
      if n.kind == 'test' and pred(unparse(n.ast, 0)):
        from vzstatic.source import parent as _par
        ifst = _par(n.ast)
        if isinstance(ifst, ast.If) and ifst.test is n.ast and ifst.body and isinstance(ifst.body[-1], ast.Raise):
          out.append(n)
    return out

  def every_path_through(nodes: List[cfgmod.Node], start=None) -> bool:
    return bool(nodes) and cn not in g.reachable([start or g.entry], blocked=nodes, include_starts=True)

  name_t = raising_test(lambda t: t in ('not name', "name == ''", 'not name.strip()'))
  ctx.check(every_path_through(name_t), 'R1', 'empty name rejected', fi.node,
            '`if not name: raise` dominates the constructor', 'a ParameterConfig can be built with an empty name',
            construct='name', func=fi.qualname)
  # bounds arms
  vb = [n for n in g.nodes if any(_last(c) == '_validate_bounds' for c in flow.node_calls(n))]
  arms = [n for n in g.nodes if n.kind == 'test' and 'isinstance(bounds[0]' in unparse(n.ast, 0)]
  ok = bool(arms)
  for a in arms:
    tb = [m for m, lab in a.succs if lab == 'T']
    # from the true branch, constructor must not be reachable without passing a _validate_bounds node
    if tb and cn in g.reachable(tb, blocked=vb, include_starts=True) and tb[0] not in vb:
      ok = False
  ctx.check(ok and len(arms) >= 2, 'R1', 'bounds validated on the INTEGER and DOUBLE arms', fi.node,
            '_validate_bounds(bounds) on both arms before the constructor',
            'a numeric arm reaches the constructor without _validate_bounds: non-finite or reversed bounds are accepted',
            construct='bounds', func=fi.qualname)
  vbf = _anchor_fn(mod, '_validate_bounds')
  t = unparse(vbf.node, 0) if vbf else ''
  ctx.check('isfinite' in t and ('lower > upper' in t or 'bounds[0] > bounds[1]' in t or 'upper < lower' in t) and t.count('raise') >= 2,
            'R1', '_validate_bounds rejects non-finite and reversed bounds', vbf.node if vbf else fi.node,
            'finite test and order test both raise', '_validate_bounds no longer rejects non-finite or reversed bounds',
            construct='validate_bounds', func=PCMOD + '._validate_bounds')
  # feasible values: from the branch on which they are given, every path to the constructor (a) passes the duplicate
  # test, (b) passes one of the two normalisers, each under its own kind test (so mixed kinds cannot get through)
  # the branch that selects the feasible-values arm: a test on feasible_values whose true side reaches a normaliser
  norm_nodes = [n for n in g.nodes if any(_last(c) in ('_get_feasible_points_and_bounds', '_get_categories')
                                          for c in flow.node_calls(n))]
  fv_tests = [n for n in g.nodes if n.kind == 'test' and unparse(n.ast, 0) in ('feasible_values', 'feasible_values is not None')
              and any(x in g.reachable([m for m, lab in n.succs if lab == 'T'], include_starts=True) for x in norm_nodes)
              and not any(x in g.reachable([m for m, lab in n.succs if lab == 'F'], blocked=[n], include_starts=True) for x in norm_nodes)]
  if not fv_tests:
    raise AnalysisError('factory: test on feasible_values not found')
  fv_true = [m for t_ in fv_tests for m, lab in t_.succs if lab == 'T']

  def is_dup_test_node(t: ast.AST) -> bool:
    """len(<distinct view of feasible_values>) compared (!=, <, >) with len(feasible_values)"""
    if not (isinstance(t, ast.Compare) and len(t.ops) == 1 and isinstance(t.ops[0], (ast.NotEq, ast.Lt, ast.Gt))):
      return False
    sides = [t.left, t.comparators[0]]
    if not all(isinstance(x, ast.Call) and dotted(x.func) == 'len' and len(x.args) == 1 for x in sides):
      return False
    args = [x.args[0] if (isinstance(x.args[0], ast.Name) and x.args[0].id in fi.params) else flow.resolve_local(fi.node, x.args[0])
            for x in sides]
    def distinct(e):
      return isinstance(e, ast.Call) and (dotted(e.func) or '').rsplit('.', 1)[-1] in ('set', 'frozenset', 'Counter', 'fromkeys') \
          and e.args and unparse(e.args[-1], 0) == 'feasible_values'
    def plain(e):
      return unparse(e, 0) == 'feasible_values'
    return (distinct(args[0]) and plain(args[1])) or (distinct(args[1]) and plain(args[0]))
  dup = []
  for n_ in g.nodes:
    if n_.kind == 'test' and is_dup_test_node(n_.ast):
      from vzstatic.source import parent as _par3
      ifst = _par3(n_.ast)
      if isinstance(ifst, ast.If) and ifst.test is n_.ast and ifst.body and isinstance(ifst.body[-1], ast.Raise):
        dup.append(n_)
  okd = bool(dup) and cn not in g.reachable([x for x in fv_true if x not in dup], blocked=dup, include_starts=True)
  ctx.check(okd, 'R1', 'duplicate feasible values rejected before type inference', fi.node,
            'every path from "feasible values given" to the constructor passes the raising duplicate test',
            'duplicate feasible values are not rejected on every path', construct='duplicates', func=fi.qualname)
  num = [n for n in g.nodes if any(_last(c) == '_get_feasible_points_and_bounds' for c in flow.node_calls(n))]
  cat = [n for n in g.nodes if any(_last(c) == '_get_categories' for c in flow.node_calls(n))]

  def reorder_only(e) -> bool:
    """sorted(list(feasible_values)) and the like: a chain of list / tuple / sorted around the checked values, sorted among them."""
    seen_sorted = False
    while isinstance(e, ast.Call) and dotted(e.func) in ('list', 'sorted', 'tuple') and len(e.args) == 1 and not e.keywords:
      seen_sorted = seen_sorted or dotted(e.func) == 'sorted'
      e = e.args[0]
    return seen_sorted and isinstance(e, ast.Name) and e.id == 'feasible_values'
  # the categorical normaliser written in place: `feasible_values = sorted(list(feasible_values))`
  cat_inline = [n for n in g.nodes if n.kind == 'stmt' and isinstance(n.ast, ast.Assign) and len(n.ast.targets) == 1
                and isinstance(n.ast.targets[0], ast.Name) and n.ast.targets[0].id == 'feasible_values' and reorder_only(n.ast.value)]
  cat = cat + cat_inline
  f1, f2 = _anchor_fn(mod, '_get_feasible_points_and_bounds'), _anchor_fn(mod, '_get_categories')
  t1 = unparse(f1.node, 0) if f1 else ''
  t2 = unparse(f2.node, 0) if f2 else ''

  def under_kind_test(nodes, kinds) -> bool:
    for n_ in nodes:
      conds = [(unparse(c_, 0), pol) for c_, pol in g.controlling_conditions(n_)]
      if not any(pol and t_.startswith('all(') and 'isinstance(' in t_ and any(k in t_ for k in kinds) for t_, pol in conds):
        return False
    return bool(nodes)
  ctx.check(under_kind_test(num, ('float', 'int')) and 'sorted(' in t1 and 'isfinite' in t1 and 'raise' in t1, 'R1',
            'numeric feasible values: finite and sorted', fi.node,
            '_get_feasible_points_and_bounds (finiteness check, sort) is applied under the all-numeric test',
            'numeric feasible values are not normalised (finite, sorted)', construct='numeric-fv', func=fi.qualname)
  ctx.check(under_kind_test(cat, ('str',)) and ('sorted(' in t2 or (bool(cat_inline) and len(cat_inline) == len(cat))), 'R1',
            'categorical feasible values sorted', fi.node,
            '_get_categories sorts, applied under the all-strings test', 'categories are not sorted', construct='cat-fv', func=fi.qualname)
  # the normalisers only re-order: the values they return are the values the duplicate test saw (a per-element
  # conversion such as float(v) can map distinct values to one)
  for fnorm, label in ((f1, 'numeric'), (f2, 'categorical')):
    if fnorm is None:
      continue
    par = [p_ for p_ in fnorm.params if p_ not in ('self', 'cls')][0]
    conv = None
    for r_ in (x for x in ast.walk(fnorm.node) if isinstance(x, ast.Return) and x.value is not None):
      v_ = r_.value.elts[0] if isinstance(r_.value, ast.Tuple) and r_.value.elts else r_.value
      v_ = flow.resolve_local(fnorm.node, v_)
      e_ = v_
      while isinstance(e_, ast.Call) and dotted(e_.func) in ('list', 'sorted', 'tuple') and len(e_.args) == 1 and not e_.keywords:
        e_ = flow.resolve_local(fnorm.node, e_.args[0])
      if not (isinstance(e_, ast.Name) and e_.id == par):
        conv = e_
    ctx.check(conv is None, 'R1', f'{label} feasible values are only re-ordered by the normaliser', fnorm.node,
              'sorted(list(values)) of the values that were checked for duplicates',
              f'the normaliser returns `{unparse(conv, 60) if conv is not None else ""}`: values are converted one by one after the duplicate test, so '
              'distinct inputs (e.g. integers above 2**53) can collapse into duplicate feasible values', construct=f'normaliser-converts:{label}',
              func=fnorm.qualname)
  mixed = bool(num + cat) and cn not in g.reachable([x for x in fv_true if x not in num + cat], blocked=num + cat, include_starts=True)
  ctx.check(mixed, 'R1', 'mixed value kinds rejected', fi.node,
            'every path from "feasible values given" to the constructor passes one of the two normalisers (anything else raises)',
            'mixed numeric/string feasible values are accepted', construct='mixed', func=fi.qualname)


def r13_bounds_membership(ctx, mod) -> None:
  """Every small function that raises on a comparison of one of its parameters with both `<config>.bounds[0]` and
  `<config>.bounds[1]` (directly or through a local bound to `.bounds`) is interpreted for bounds (2, 5) and the values
  1, 2, 3, 5, 6: it must raise for 1 and 6 only (closed interval)."""
  from vzstatic import pathcond
  n = 0
  fns = [(m.qualname, m.node) for ci in mod.classes.values() for m in ci.methods.values()] + \
      [(f.qualname, f.node) for f in mod.functions.values()]
  for qn, fn in fns:
    if not any(isinstance(x, ast.Raise) for x in ast.walk(fn)) or any(isinstance(x, (ast.For, ast.While, ast.Try)) for x in ast.walk(fn)):
      continue
    roots = set()
    for c in (x for x in ast.walk(fn) if isinstance(x, (ast.Compare, ast.BoolOp))):
      idx = {}
      for x in ast.walk(c):
        if isinstance(x, ast.Subscript) and isinstance(x.slice, ast.Constant) and x.slice.value in (0, 1):
          b = flow.resolve_local(fn, x.value)
          if isinstance(b, ast.Attribute) and b.attr in ('bounds', '_bounds') and dotted(b):
            idx.setdefault(dotted(b), set()).add(x.slice.value)
      roots |= {k for k, v in idx.items() if v == {0, 1}}
    if len(roots) != 1:
      continue
    bkey = next(iter(roots))
    params = [a.arg for a in fn.args.args + fn.args.kwonlyargs if a.arg not in ('self', 'cls', bkey.split('.')[0])]
    if len(params) != 1:
      continue
    n += 1
    table = {}
    for val in (1, 2, 3, 5, 6):
      try:
        pathcond.run_concrete(fn, {bkey: (2, 5), params[0]: val}, tolerant=True)
        table[val] = False
      except pathcond.Raised:
        table[val] = True
      except pathcond.NoValue as e:
        raise AnalysisError(f'{qn}: bounds test outside the finite model ({e})')
    want = {1: True, 2: False, 3: False, 5: False, 6: True}
    ctx.check(table == want, 'R13', f'{qn}: bounds membership', fn, 'raises exactly outside the closed interval [bounds[0], bounds[1]]',
              f'with bounds (2, 5) `{qn.rsplit(".", 1)[-1]}` raises for {sorted(k for k, b in table.items() if b)} (expected [1, 6]): '
              'a value on a bound is refused, or a value outside is accepted', construct='bounds-membership', func=qn)
  if n < 1:
    raise AnalysisError('no raising bounds-membership function found in parameter_config (ParameterConfig._assert_bounds on the pinned tree)')


def r11_children_emptiness(ctx) -> None:
  mod = ctx.index.need_module(PCMOD)
  n = 0
  bad = []
  for ci in mod.classes.values():
    for m in ci.methods.values():
      for x in ast.walk(m.node):
        # truthiness / len / any over `<obj>._children`
        subj = None
        if isinstance(x, (ast.If, ast.IfExp, ast.While)):
          t = x.test
          parts = t.values if isinstance(t, ast.BoolOp) else [t]
          for p_ in parts:
            q_ = p_.operand if isinstance(p_, ast.UnaryOp) and isinstance(p_.op, ast.Not) else p_
            if isinstance(q_, ast.Attribute) and q_.attr == '_children':
              subj = q_
        if isinstance(x, ast.Call) and dotted(x.func) in ('any', 'all', 'bool', 'len') and x.args:
          a = x.args[0]
          elt = a.elt if isinstance(a, (ast.GeneratorExp, ast.ListComp)) else a
          if isinstance(elt, ast.Attribute) and elt.attr == '_children':
            subj = elt
        if subj is not None:
          bad.append((m, x))
      if m.name in ('is_conditional',):
        n += 1
  ctx.check(not bad, 'R11', 'conditionality is decided on child parameter configs', mod.tree,
            'no truthiness / len / any over a `_children` table',
            (f'{bad[0][0].qualname}: `{unparse(bad[0][1], 70)}` treats a non-empty `_children` table as "has children": ParameterConfig.subspace(v) inserts an '
             'empty SearchSpace for every value that was merely looked up, so a flat space reports is_conditional == True afterwards (and designers '
             'that refuse conditional spaces refuse it)') if bad else '', construct='children-table-truthiness',
            func=bad[0][0].qualname if bad else None)
  if n < 1:
    raise AnalysisError('SearchSpace.is_conditional not found')


def r10_children_keys(ctx) -> None:
  """`_children` is keyed by internal values ('True', 2.0): a look-up with the caller's value (True, 2) silently misses, and
  the `.get(value, SearchSpace())` default turns the miss into "no children" - a conditional child is accepted / refused wrongly."""
  mod = ctx.index.need_module(PCMOD)
  ci = mod.classes.get('ParameterConfig')
  n = 0
  for m in ci.methods.values():
    params = [p_ for p_ in m.params if p_ != 'self']
    g = None
    for x in ast.walk(m.node):
      key = None
      if isinstance(x, ast.Subscript) and dotted(x.value) == 'self._children':
        key = x.slice
      elif isinstance(x, ast.Call) and isinstance(x.func, ast.Attribute) and x.func.attr in ('get', 'pop', 'setdefault') \
          and dotted(x.func.value) == 'self._children' and x.args:
        key = x.args[0]
      elif isinstance(x, ast.Compare) and len(x.ops) == 1 and isinstance(x.ops[0], (ast.In, ast.NotIn)) and dotted(x.comparators[0]) == 'self._children':
        key = x.left
      if key is None:
        continue
      if g is None:
        g = cfgmod.CFG(m.node)
        # handler bodies are reached from any statement of their try block
        g.add_exception_edges(lambda n_: ['*'] if any(part == 'body' for _, part in getattr(n_, 'trys', [])) else [],
                              lambda h_, exc_, n_: 'may')
        rd = flow.ReachingDefs(g)
      node = g.node_of(x)
      # a key that is (on every reaching definition) a parameter as given is a raw caller value
      raw = False
      if isinstance(key, ast.Name) and node is not None:
        if key.id not in params:
          continue  # loop variables over stored keys / matching values: already internal

        def is_cast(name, at, depth=0) -> bool:
          defs = rd.at(at, name)
          if not defs or depth > 5:
            return False
          for d in defs:
            if d.node_id < 0 or d.kind != 'assign' or d.value is None:
              return False  # the parameter as given (or something opaque)
            if any(isinstance(c_, ast.Call) and isinstance(c_.func, ast.Attribute) and c_.func.attr == 'cast_as_internal' for c_ in ast.walk(d.value)):
              continue
            if isinstance(d.value, ast.Name) and is_cast(d.value.id, g.nodes[d.node_id], depth + 1):
              continue
            return False
          return True
        raw = not is_cast(key.id, node)
      elif not isinstance(key, ast.Name):
        continue
      n += 1
      ctx.check(not raw, 'R10', f'ParameterConfig.{m.name}: `_children` look-up key', x,
                'the key was cast with ParameterValue(..).cast_as_internal(self.type)',
                f'`{unparse(x, 60)}` uses the value as the caller passed it: subspaces are stored under internal values (\'True\', 2.0), so True or 2 '
                'find nothing and the parameter looks unconditional (children of a matching parent are refused, missing ones accepted)',
                construct=f'{m.name}:raw-children-key', func=m.qualname)
  if n < 2:
    raise AnalysisError(f'ParameterConfig: only {n} keyed look-ups of `_children` by a parameter found')


def r9_deep_clones(ctx) -> None:
  mod = ctx.index.need_module(PCMOD)
  n = 0
  for ci in mod.classes.values():
    mutators = set()
    for m in ci.methods.values():
      for x in ast.walk(m.node):
        if isinstance(x, ast.Call) and isinstance(x.func, ast.Attribute) and x.func.attr in ('clear', 'pop', 'append', 'extend', 'update', 'remove', 'insert', 'setdefault', 'popitem', 'add', 'discard', 'sort') \
            and (dotted(x.func.value) or '').startswith('self._'):
          mutators.add(m.name)
        if isinstance(x, (ast.Assign, ast.Delete)):
          for t in x.targets:
            if isinstance(t, ast.Subscript) and (dotted(t.value) or '').startswith('self._'):
              mutators.add(m.name)
    for m in ci.methods.values():
      copies = {}
      for x in ast.walk(m.node):
        if isinstance(x, ast.Assign) and len(x.targets) == 1 and isinstance(x.targets[0], ast.Name) and isinstance(x.value, ast.Call) \
            and dotted(x.value.func) in ('copy.copy', 'copy.deepcopy') and x.value.args:
          copies[x.targets[0].id] = (dotted(x.value.func), x)
      for var, (kind, node) in copies.items():
        changed = None
        for x in ast.walk(m.node):
          if isinstance(x, ast.Call) and isinstance(x.func, ast.Attribute) and isinstance(x.func.value, ast.Name) and x.func.value.id == var \
              and x.func.attr in mutators:
            changed = changed or x
          if isinstance(x, ast.Call) and isinstance(x.func, ast.Attribute) and x.func.attr in ('clear', 'pop', 'append', 'extend', 'update', 'remove', 'insert', 'setdefault', 'popitem', 'add', 'discard', 'sort') \
              and (dotted(x.func.value) or '').startswith(var + '._'):
            changed = changed or x
        if changed is None:
          continue
        n += 1
        ctx.check(kind == 'copy.deepcopy', 'R9', f'{ci.name}.{m.name}: `{var}` is modified in place', node,
                  'the copy is a deep copy',
                  f'`{var} = {unparse(node.value, 40)}` is a shallow copy and `{unparse(changed, 50)}` then changes one of its containers in place: the '
                  'container is shared with the original, whose children / subspaces are changed too (a conditional space loses its children after '
                  'a read-only traversal)', construct=f'{ci.name}.{m.name}:shallow-clone', func=m.qualname)
  if n < 1:
    raise AnalysisError('no copy-then-modify site found in parameter_config (clone_without_children on the pinned tree)')


def r2_add(ctx, ss) -> None:
  fi = ss.methods['add']
  g = cfgmod.CFG(fi.node)
  store = [n for n in g.nodes if n.kind == 'stmt' and isinstance(n.ast, ast.Assign) and any(
      isinstance(t, ast.Subscript) and dotted(t.value) == 'self._parameter_configs' for t in n.ast.targets)]
  chk = [n for n in g.nodes if n.kind == 'test' and 'in self._parameter_configs' in unparse(n.ast, 0)]
  ok = bool(store and chk) and chk[0].id in g.dominators()[store[0].id] and any(
      isinstance(m.ast, ast.Raise) for m, lab in chk[0].succs if lab == 'T')
  ctx.check(ok, 'R2', 'SearchSpace.add', fi.node, 'duplicate-name test (raising) dominates the store',
            'a parameter is stored before / without the duplicate-name check', construct='add', func=fi.qualname)


def r3_children(ctx, pc) -> None:
  sub = pc.methods['subspace']
  g = cfgmod.CFG(sub.node)
  guard = [n for n in g.nodes if n.kind == 'test' and 'isfinite(self.num_feasible_values)' in unparse(n.ast, 0)]
  creates = [n for n in g.nodes if any((dotted(c.func) or '') == 'SearchSpace' for c in flow.node_calls(n))]
  ok = bool(guard and creates) and guard[0].id in g.dominators()[creates[0].id] and any(
      isinstance(m.ast, ast.Raise) for m, lab in guard[0].succs if lab == 'T')
  ctx.check(ok, 'R3', 'subspace() refuses parameters with infinitely many values', sub.node,
            'raising isfinite(num_feasible_values) guard dominates creation of the child space',
            'a child space can be created under a continuous parameter', construct='subspace', func=sub.qualname)
  nf = pc.methods['num_feasible_values']
  okn = False
  for n in ast.walk(nf.node):
    if isinstance(n, ast.If) and 'ParameterType.DOUBLE' in unparse(n.test, 0):
      rets = [r for r in ast.walk(ast.Module(body=n.body, type_ignores=[])) if isinstance(r, ast.Return)]
      okn = bool(rets) and all(r.value is not None and unparse(r.value, 0) in ("float('inf')", 'math.inf', 'np.inf', 'float("inf")') for r in rets) \
          and not any(isinstance(x, ast.If) for s in n.body for x in ast.walk(s))
  ctx.check(okn, 'R3', 'every DOUBLE has infinitely many values', nf.node, 'DOUBLE -> inf unconditionally',
            'num_feasible_values has a finite case for DOUBLE (e.g. min == max): the children-under-continuous guard, which '
            'tests finiteness, no longer rejects such parameters', construct='double-inf', func=nf.qualname)


def _assert_contains_model(fi: FuncInfo):
  """assert_contains interpreted on a finite model: flat / conditional space, two configured parameters, parameter dicts with
  missing / extra / infeasible entries.  Returns (first wrong row or None, rows)."""
  import types as _types
  from vzstatic import pathcond
  par = [p_ for p_ in fi.params if p_ != 'self'][0]
  cfgs = {'a': _types.SimpleNamespace(name='a', allowed={1, 2}), 'b': _types.SimpleNamespace(name='b', allowed={'x'})}

  def hook(c, env_):
    if isinstance(c.func, ast.Attribute) and c.func.attr == 'contains' and len(c.args) == 1:
      obj = pathcond.neval(c.func.value, env_)
      return pathcond.neval(c.args[0], env_) in obj.allowed
    if isinstance(c.func, ast.Attribute) and c.func.attr in ('values', 'keys', 'items') and not c.args:
      d_ = pathcond.neval(c.func.value, env_)
      return list(getattr(d_, c.func.attr)())
    if isinstance(c.func, ast.Attribute) and c.func.attr == 'get' and c.args:
      d_ = pathcond.neval(c.func.value, env_)
      return d_.get(pathcond.neval(c.args[0], env_), pathcond.neval(c.args[1], env_) if len(c.args) > 1 else None)
    return NotImplemented
  rows = 0
  cases = [{'a': 1, 'b': 'x'}, {'a': 2, 'b': 'x'}, {'a': 3, 'b': 'x'}, {'a': 1, 'b': 'y'}, {'a': 1}, {'b': 'x'}, {},
           {'a': 1, 'b': 'x', 'c': 0}, {'a': 1, 'c': 0}, {'c': 0, 'd': 1}]
  for cond in (False, True):
    for params in cases:
      env = {'self.is_conditional': cond, par: dict(params), 'self._parameter_configs': dict(cfgs), 'self.parameters': list(cfgs.values()),
             '__callhook__': hook}
      rows += 1
      try:
        got = ('returns', pathcond.run_concrete(fi.node, env, tolerant=True))
      except pathcond.Raised as r_:
        got = ('raises', str(r_).split('(')[0])
      member = set(params) == set(cfgs) and all(params[k] in cfgs[k].allowed for k in cfgs)
      want = ('raises', 'NotImplementedError') if cond else (('returns', True) if member else ('raises', 'InvalidParameterError'))
      ok = got == want or (want[0] == 'returns' and got[0] == 'returns' and got[1] in (True, None))
      if not ok:
        return (f'is_conditional={cond}, parameters={params}: {got[0]} {got[1]}, expected {want[0]} {want[1]}'), rows
  return None, rows


def r4_contains(ctx, ss) -> None:
  fi = ss.methods['assert_contains']
  from vzstatic import pathcond as _pc
  try:
    wrong, rows = _assert_contains_model(fi)
  except _pc.NoValue as e:
    raise AnalysisError(f'SearchSpace.assert_contains: cannot be evaluated on the finite model ({e})')
  ctx.count('assert_contains_model_rows', rows)
  ctx.check(wrong is None, 'R4', 'assert_contains on the finite model', fi.node,
            f'conditional spaces refused, members accepted, everything else InvalidParameterError ({rows} rows)',
            f'{wrong}: membership in the search space is answered wrongly', construct='assert-contains-model', func=fi.qualname)
  c = ss.methods['contains']
  hs = [h for h in ast.walk(c.node) if isinstance(h, ast.ExceptHandler)]
  gc = cfgmod.CFG(c.node)
  hnodes = [n for n in gc.nodes if n.kind == 'handler']
  after = gc.reachable(hnodes, include_starts=False) if hnodes else set()
  rets_after = [n for n in after if n.kind == 'stmt' and isinstance(n.ast, ast.Return)]
  ok = len(hs) == 1 and unparse(hs[0].type, 0) == 'InvalidParameterError' and bool(rets_after) and all(
      isinstance(n.ast.value, ast.Constant) and n.ast.value.value is False for n in rets_after) \
      and gc.exit not in gc.reachable(hnodes, blocked=rets_after, include_starts=False)
  ctx.check(ok, 'R4', 'SearchSpace.contains converts exactly InvalidParameterError', c.node, 'except InvalidParameterError: return False',
            'contains() catches a different class: NotImplementedError for conditional spaces would be answered with False (a wrong answer) '
            'or feasibility errors would escape', construct='contains-handler', func=c.qualname)


def r5_feasible(ctx, pc) -> None:
  fi = pc.methods['_assert_feasible']
  want = {'DOUBLE': ('as_float', '_assert_bounds'), 'INTEGER': ('as_int', '_assert_bounds'),
          'DISCRETE': ('as_float', '_assert_in_feasible_values'), 'CATEGORICAL': ('as_str', '_assert_in_feasible_values')}
  # the dispatch is evaluated member by member: with self.type bound to one ParameterType at a time, which checker
  # is called with which accessor?  (independent of if/elif vs early returns, hoisted locals, ...)
  from vzstatic import enumeval
  pt_cls = ctx.index.need_class('vizier._src.pyvizier.shared.trial.ParameterType')
  members = [k for k in pt_cls.enum_members] if getattr(pt_cls, 'enum_members', None) else ['DOUBLE', 'INTEGER', 'CATEGORICAL', 'DISCRETE', 'CUSTOM']
  subjects = {'self.type', 'self._type'}
  for n in ast.walk(fi.node):
    if isinstance(n, ast.Assign) and len(n.targets) == 1 and isinstance(n.targets[0], ast.Name) and unparse(n.value, 0) in subjects:
      subjects.add(n.targets[0].id)
  probs = []
  ends_raise = True
  for m_ in members:
    tr = enumeval.trace(fi.node.body, lambda t, m_=m_: enumeval.eval_test(t, {s_: m_ for s_ in subjects}))
    if tr is None:
      raise AnalysisError(f'_assert_feasible: dispatch not decidable for ParameterType.{m_}')
    txt = ' ; '.join(unparse(st, 0) for st in tr)
    if m_ in want:
      acc, chk = want[m_]
      calls_ = [c_ for st in tr for c_ in ast.walk(st) if isinstance(c_, ast.Call) and (dotted(c_.func) or '').endswith(chk)]
      ok_ = any(any(isinstance(x, ast.Attribute) and x.attr == acc for x in ast.walk(c_)) for c_ in calls_)
      if not ok_:
        probs.append(f'{m_}: expected {chk}(value.{acc}), found `{txt[-80:]}`')
    else:
      if not (tr and isinstance(tr[-1], ast.Raise)):
        ends_raise = False
  ctx.check(not probs and ends_raise, 'R5', '_assert_feasible dispatch', fi.node, 'four arms with matching accessors, else raise',
            '; '.join(probs) or 'unknown types do not raise', construct='; '.join(probs) or 'else', func=fi.qualname)
  ct = unparse(fi.node, 0)
  ctx.check('.assert_correct_type(value)' in ct, 'R5', '_assert_feasible checks the value type first', fi.node,
            'assert_correct_type before the range test', 'type compatibility is not checked', construct='type-first', func=fi.qualname)
  c = pc.methods['contains']
  hs = [h for h in ast.walk(c.node) if isinstance(h, ast.ExceptHandler)]
  names = sorted(unparse(e, 0) for h in hs for e in (h.type.elts if isinstance(h.type, ast.Tuple) else [h.type])) if hs and all(h.type is not None for h in hs) else ['<bare>']
  ctx.check(names == ['TypeError', 'ValueError'], 'R5', 'ParameterConfig.contains handler', c.node, 'except (TypeError, ValueError)',
            f'contains() catches {names}: broader handlers hide real errors, narrower ones let infeasibility escape as an exception',
            construct=str(names), func=c.qualname)
  pt = ctx.index.need_class('vizier._src.pyvizier.shared.trial.ParameterType')
  act = pt.methods['assert_correct_type']
  t = unparse(act.node, 0)
  exact = 'int(value) != value' in t and 'float(value) != value' in t and not any(
      k in t for k in ('isclose', 'round(', 'abs(', 'allclose'))
  ctx.check(exact, 'R5', 'assert_correct_type: exact numeric / integrality test', act.node, 'int(value) != value',
            'the integrality test tolerates near-integers: 2.9999999999 is accepted as INTEGER and then truncated by as_int, '
            'so an out-of-domain value is judged inside the bounds', construct='integrality', func=act.qualname)


def r6_add_trial(ctx) -> None:
  ci = ctx.index.need_class('vizier._src.service.clients.Study')
  fi = ci.methods['add_trial']
  g = cfgmod.CFG(fi.node)
  prov = flow.Provenance(g, on_call=lambda c: 'stop', on_attr=lambda a: 'through')
  chk = [n for n in g.nodes if any(isinstance(c.func, ast.Attribute) and c.func.attr == 'assert_contains' for c in flow.node_calls(n))]
  send = [n for n in g.nodes if any((dotted(c.func) or '').endswith('_client.add_trial') for c in flow.node_calls(n))]
  ok = bool(chk and send) and send[0] not in g.reachable([g.entry], blocked=chk, include_starts=True)
  fresh = False
  if chk:
    c = [c for c in flow.node_calls(chk[0]) if isinstance(c.func, ast.Attribute) and c.func.attr == 'assert_contains'][0]
    o = prov.origins(c.func.value, chk[0])
    fresh = any(k == 'call' and (dotted(v.func) or '').endswith('_client.get_study_config') for k, v in o) and not any(
        k == 'attr' and (dotted(v) or '').startswith('self._') and not (dotted(v) or '').startswith('self._client') for k, v in o)
  ctx.check(ok and fresh, 'R6', 'Study.add_trial', fi.node,
            'search_space.assert_contains(trial.parameters) on the config fetched in this call dominates the service call',
            'add_trial does not validate against the study\'s current search space on every path (missing, or validated '
            'against a cached copy that can be stale after the study was re-created)', construct='add_trial', func=fi.qualname)


def r7_walk(ctx, pc) -> None:
  fi = pc.methods['get_subspace_deepcopy']
  g = cfgmod.CFG(fi.node)
  val = [n for n in g.nodes if any((dotted(c.func) or '') == 'self._assert_feasible' for c in flow.node_calls(n))]
  bad = None
  for n in g.nodes:
    if n.kind == 'stmt' and isinstance(n.ast, ast.Return):
      if n in g.reachable([g.entry], blocked=val, include_starts=True):
        # allowed only if every validation-free path to it excludes the four value types:
        # i.e. it sits behind a guard with a validated DOUBLE arm
        guarded = False
        for a in ancestors(n.ast):
          if isinstance(a, ast.If):
            for st in a.body:
              if isinstance(st, ast.If) and 'ParameterType.DOUBLE' in unparse(st.test, 0) and any(
                  (dotted(c.func) or '') == 'self._assert_feasible' for c in flow.calls_in(st)):
                guarded = True
        if not guarded:
          bad = n
  ctx.check(bad is None and bool(val), 'R7', 'get_subspace_deepcopy validates the value on every path', fi.node,
            'every return is preceded by _assert_feasible (DOUBLE included)',
            f'the return at line {bad.lineno if bad else 0} is reached without validating the value (continuous parameters): '
            'SequentialParameterBuilder ("get_subspace also validates the value") then stores an out-of-bounds value, e.g. an '
            'out-of-range default_value becomes the first suggestion', construct='unvalidated return', func=fi.qualname)
  b = ctx.index.need_class('vizier._src.pyvizier.shared.parameter_iterators.SequentialParameterBuilder')
  co = b.methods['_coroutine']
  g2 = cfgmod.CFG(co.node)
  gs = [n for n in g2.nodes if any(isinstance(c.func, ast.Attribute) and c.func.attr == 'get_subspace_deepcopy' for c in flow.node_calls(n))]
  st = [n for n in g2.nodes if n.kind == 'stmt' and isinstance(n.ast, ast.Assign) and any(
      isinstance(t, ast.Subscript) and dotted(t.value) == 'self._parameters' for t in n.ast.targets)]
  ok = bool(gs and st) and gs[0].id in g2.dominators()[st[0].id]
  ctx.check(ok, 'R7', 'SequentialParameterBuilder stores a value only after get_subspace_deepcopy(value)', co.node,
            'validation dominates the store', 'a chosen value is stored without going through get_subspace_deepcopy',
            construct='builder', func=co.qualname)


_PC = 'vizier/_src/pyvizier/shared/parameter_config.py'
VARIANTS = [
    Variant('double-arm-no-validate', _PC,
            "        inferred_type = ParameterType.DOUBLE\n        _validate_bounds(bounds)", "        inferred_type = ParameterType.DOUBLE", rule='R1'),
    Variant('categories-not-sorted', _PC, '  return sorted(list(categories))', '  return list(categories)', rule='R1'),
    Variant('store-before-duplicate-check', _PC,
            "    if (name in self._parameter_configs) and (not replace):", "    self._parameter_configs[name] = parameter_config\n    if False and (name in self._parameter_configs) and (not replace):", rule='R2'),
    Variant('add-trial-no-validation', 'vizier/_src/service/clients.py',
            '    sc.search_space.assert_contains(trial.parameters)\n', '', rule='R6'),
    Variant('pinned-double-finite', _PC,
            "    if self.type == ParameterType.DOUBLE:\n      return float('inf')",
            "    if self.type == ParameterType.DOUBLE:\n      return 1 if self.bounds[0] == self.bounds[1] else float('inf')", rule='R3'),
    Variant('integer-uses-as-float', _PC,
            '    elif self.type == ParameterType.INTEGER:\n      self._assert_bounds(value.as_int)',
            '    elif self.type == ParameterType.INTEGER:\n      self._assert_bounds(value.as_float)', rule='R5'),
    Variant('contains-catches-exception', _PC, '    except (TypeError, ValueError):\n      return False', '    except Exception:\n      return False', rule='R5'),
    Variant('conditional-answered', _PC,
            "    if self.is_conditional:\n      raise NotImplementedError('Not implemented for conditional space.')\n", '', rule='R4'),
    Variant('benign-rename', _PC, 'duplicate_dict', 'dups', expect='silent', count=2),
]
