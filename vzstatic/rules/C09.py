"""C09 — study configs, trials and measurements survive the wire format.

Decides field-coverage symmetry and presence discipline of every converter
pair, not the values:
  R1 proto-side symmetry: for each (writer, reader) pair the set of
     (message type, field) leaves written equals the set read, computed by
     typed access-path extraction against the parsed .proto schema with helper
     functions inlined; hand-offs to sibling converters count as whole-subtree
     accesses; reads through getattr(m, m.WhichOneof(..)) are wildcards that
     cover but never oblige;
  R2 object-side symmetry: the fields of the Python class the writer reads are
     the keywords the reader passes to its constructor; fields touched by
     neither side must be in the documented not-transmitted table;
  R3 wrapper presence: `.value` of a google.protobuf.*Value wrapper is never
     tested by truthiness to decide presence (falsy values 0, 0.0, '' exist);
  R4 enum maps are injective and total (minus members the writer provably
     excludes); the trial-state functions cover every Trial.State / TrialStatus;
  R5 a message is not mutated after it was copied into its container
     (constructor keyword / append / extend / CopyFrom copy): such writes are
     lost;
"""

from __future__ import annotations

import ast
from typing import Dict, List, Optional, Set, Tuple

from vzstatic import cfg as cfgmod
from vzstatic import flow
from vzstatic.index import ClassInfo, FuncInfo, dotted
from vzstatic.protoaccess import Access, Extractor, Ref
from vzstatic.protoschema import Schema, WRAPPER_TYPES
from vzstatic.selftest import Variant
from vzstatic.source import AnalysisError, loc, unparse

MANIFEST = {
    'technique': ('typed access-path extraction over the converter functions against the parsed '
                  '.proto schema (helpers inlined, oneof wildcards, whole-subtree hand-offs); '
                  'set comparison of written vs read (message, field) leaves per converter pair; '
                  'constructor-keyword vs attribute-read comparison on the Python classes; '
                  'enum-table totality/injectivity; write-after-copy dataflow'
                  '; member-wise evaluation of enum dispatch functions (enumeval); truthiness of plain string fields; name-keyed merging of conditional children; naive-UTC time helpers; shared C10.R1/R6, C16.R8'
                  "; cleared-before-rebuilt check for repeated fields of a remembered proto (dominators over the schema's repeated fields); order-preservation provenance for measurements; finite-model interpretation of each enum table pair: reverse-table expression and both lookup methods evaluated on the forward table (from_proto(to_proto(m)) == m per member)"),
    'level_text': (
        'Static: every field a converter writes is read by its inverse and vice versa, on both '
        'the proto side and the Python-object side; optional scalar presence is decided with '
        'HasField; enum tables are bijections; no write is lost by mutating a message after it '
        'was copied. These are necessary for from_proto(to_proto(x)) == x for all x. Numeric '
        'fidelity (float rounding of timestamps), idempotence of the second conversion and '
        'value-dependent guard asymmetries are not decided.'),
    'level_note': ('Trusted: protobuf python semantics — constructor keywords, append/extend and '
                   'CopyFrom copy their argument; HasField works on message-typed and optional '
                   'fields. Documented not-transmitted fields: Metric.std, '
                   'Measurement.checkpoint_path, Trial.related_links, Trial.stopping_reason text.'),
}

PC = 'vizier/_src/pyvizier/oss/proto_converters.py'
PAIRS = [('to_proto', 'from_proto'), ('to_request_proto', 'from_request_proto'),
         ('to_decision_proto', 'from_decision_proto'), ('to_decisions_proto', 'from_decisions_proto'),
         ('to_protos', 'from_protos')]
# (python class, field) documented as not transmitted (property statement)
NOT_TRANSMITTED = {
    ('Metric', 'std'), ('Measurement', 'checkpoint_path'), ('Trial', 'related_links'),
    ('Trial', 'stopping_reason'),
}


def run(ctx) -> None:
  schema = Schema(ctx.src)
  ctx.rule('R1', 'per converter pair: (message, field) leaves written == leaves read', 10)
  ctx.rule('R2', 'per converter pair: python fields read by the writer == constructor keywords set '
           'by the reader (others must be documented as not transmitted)', 5)
  ctx.rule('R3', 'wrapper-typed optional scalars: presence decided by HasField, never by truthiness of .value', 1)
  ctx.rule('R4', 'enum maps injective and total; trial-state functions cover every member', 5)
  ctx.rule('R5', 'no mutation of a message after it was copied into its container', 1)
  ctx.rule('R8', 'conditional children are never merged by name during conversion', 1)
  ctx.rule('R12', 'converters that emit one message per element of a collection emit every element (no element is skipped on its '
           'field values)', 1)
  ctx.rule('R13', 'the Pythia endpoint is written with insert_or_assign whenever it is set (one KeyValue per (ns, key))', 1)
  ctx.rule('R11', 'the sequence of intermediate measurements is converted element by element in its stored order (no sort / reverse / set / slice)', 2)
  ctx.rule('R10', 'a to_proto that starts from the remembered proto clears every repeated field before it re-populates it '
           '(otherwise removed entries come back on the wire)', 2)
  ctx.rule('R9', 'datetime <-> Timestamp conversions use one convention (epoch seconds; no naive-UTC helpers)', 1)
  ctx.import_rules('C10', {'R6', 'R1', 'R8'}, 'R7', 'metadata values: str, then Any (stored as is), then other messages packed once')
  ctx.import_rules('C16', {'R8'}, 'R6', 'conditional spaces survive conversion only if every subspace owns its own config objects')
  mi = ctx.index.module_of_file(PC)
  pairs: List[Tuple[ClassInfo, FuncInfo, FuncInfo]] = []
  for ci in mi.classes.values():
    for w, r in PAIRS:
      if w in ci.methods and r in ci.methods:
        pairs.append((ci, ci.methods[w], ci.methods[r]))
  sc = ctx.index.need_class('vizier._src.pyvizier.oss.study_config.StudyConfig')
  pairs.append((sc, sc.methods['to_proto'], sc.methods['from_proto']))
  ctx.count('converter_pairs', len(pairs))
  if len(pairs) < 12:
    raise AnalysisError(f'only {len(pairs)} converter pairs found (>= 14 on the pinned tree)')
  n_acc = 0
  extracted = []
  for ci, wf, rf in pairs:
    ew = Extractor(ctx.index, schema)
    ew.analyse(wf, {})
    er = Extractor(ctx.index, schema)
    er.analyse(rf, {})
    n_acc += len(ew.accesses) + len(er.accesses)
    extracted.append((ci, wf, rf, ew, er))
  # A pair is a *root* if no other pair's writer reaches its writer: sub-converters
  # split one message between caller and callee (e.g. Trial.Parameter.parameter_id is
  # read by the caller), so symmetry is decided on the closure of each root.
  for ci, wf, rf, ew, er in extracted:
    parents = [c2.name for c2, w2, r2, ew2, er2 in extracted
               if w2 is not wf and wf.qualname in ew2.functions_seen]
    if parents:
      ctx.info(f'R1: {ci.name}.{wf.name}/{rf.name} is decided inside the closure of {sorted(set(parents))}')
      ctx.ok('R1', f'{ci.name}.{wf.name}/{rf.name}', wf.node, f'sub-converter of {sorted(set(parents))}')
    else:
      r1_compare(ctx, schema, ci, wf, rf, ew, er)
    r3_truthy(ctx, schema, ci, rf, er, own_only=True)
  ctx.count('typed_accesses', n_acc)
  r2_object_side(ctx, mi, pairs)
  r4_enums(ctx, schema, mi)
  r5_write_after_copy(ctx, schema, mi, sc)
  r8_children_not_keyed_by_name(ctx, mi)
  r9_time_conventions(ctx, mi)
  r10_rebuilt_repeated_fields(ctx, schema)
  r11_measurement_order(ctx, mi)
  r12_no_element_skipped(ctx, mi)
  r13_endpoint_assign(ctx)


# ----------------------------------------------------------------------- R1
def leaf_pairs(schema: Schema, acc: Access) -> Tuple[Set[Tuple[str, str]], bool]:
  """(parent message type, field) pairs denoted by an access; wildcard flag."""
  types = [acc.root]
  wildcard = False
  out: Set[Tuple[str, str]] = set()
  for i, el in enumerate(acc.path):
    last = i == len(acc.path) - 1
    if el.startswith('<oneof:'):
      wildcard = True
      oname = el[7:-1]
      nxt = []
      for t in types:
        m = schema.message(t)
        if m and oname in m.oneofs:
          for mem in m.oneofs[oname]:
            if last:
              out.add((t, mem))
            nxt.append(m.fields[mem].type)
      types = nxt
      continue
    nxt = []
    for t in types:
      f = schema.field_type(t, el)
      if f is None:
        continue
      if last:
        out.add((t, el))
      nxt.append(f.type)
    types = nxt
  return out, wildcard


def r1_compare(ctx, schema, ci, wf, rf, ew: Extractor, er: Extractor) -> None:
  W: Dict[Tuple[str, str], Access] = {}
  Wwild: Set[Tuple[str, str]] = set()
  for a in ew.accesses:
    if a.kind in ('write', 'write-maybe'):
      lp, wild = leaf_pairs(schema, a)
      for p in lp:
        if wild:
          Wwild.add(p)
        elif a.kind == 'write':
          W.setdefault(p, a)
        else:
          Wwild.add(p)
  R: Dict[Tuple[str, str], Access] = {}
  Rwild: Set[Tuple[str, str]] = set()
  Rpres: Set[Tuple[str, str]] = set()
  for a in er.accesses:
    lp, wild = leaf_pairs(schema, a)
    if a.kind in ('read', 'truthy'):
      for p in lp:
        if wild:
          Rwild.add(p)
        else:
          R.setdefault(p, a)
    elif a.kind == 'present':
      Rpres |= lp
    elif a.kind == 'write-maybe':
      Rwild |= lp
  # intermediate message fields: reading m.f.g counts as touching (T, f) too
  def with_prefixes(accs, kinds):
    s = set()
    for a in accs:
      if a.kind in kinds:
        for i in range(1, len(a.path)):
          lp, _ = leaf_pairs(schema, Access(a.kind, a.root, a.path[:i], True))
          s |= lp
    return s
  Wpre = with_prefixes(ew.accesses, ('write', 'write-maybe'))
  Rpre = with_prefixes(er.accesses, ('read', 'truthy', 'present'))
  inst = f'{ci.name}.{wf.name}/{rf.name}'
  problems = 0
  for p, a in sorted(W.items()):
    if p in R or p in Rwild or p in Rpre:
      continue
    problems += 1
    ctx.bad('R1', f'{inst}: {p[0].split(".", 1)[-1]}.{p[1]}', a.node,
            f'`{p[0]}.{p[1]}` is written by {wf.name} but never read by {rf.name}'
            + (' (only its presence is tested)' if p in Rpres else '')
            + ': the value is lost on the round trip',
            construct=f'written-not-read {p[0]}.{p[1]}', func=a.func or wf.qualname)
  for p, a in sorted(R.items()):
    if p in W or p in Wwild or p in Wpre:
      continue
    problems += 1
    ctx.bad('R1', f'{inst}: {p[0].split(".", 1)[-1]}.{p[1]}', a.node,
            f'`{p[0]}.{p[1]}` is read by {rf.name} but never written by {wf.name}: the reader relies '
            'on a field its writer never fills (asymmetric pair)',
            construct=f'read-not-written {p[0]}.{p[1]}', func=a.func or rf.qualname)
  if not problems:
    ctx.ok('R1', inst, wf.node, f'{len(W)} written leaves / {len(R)} read leaves agree '
           f'(+{len(Wwild | Rwild)} through wildcards or hand-offs)')


# ----------------------------------------------------------------------- R9
def r12_no_element_skipped(ctx, mi) -> None:
  n = 0
  for ci in mi.classes.values():
    if not ci.name.endswith('Converter'):
      continue
    for m in ci.methods.values():
      if not m.name.startswith('to_'):
        continue
      params = [p_ for p_ in m.params if p_ not in ('cls', 'self')]
      if not params:
        continue
      g = None
      for lp in (x for x in ast.walk(m.node) if isinstance(x, ast.For)):
        it_names = {y.id for y in ast.walk(lp.iter) if isinstance(y, ast.Name)}
        if not (it_names & set(params)):
          continue
        # the per-element emission: an append / add / extend / CopyFrom / assign-style call in the body
        if g is None:
          g = cfgmod.CFG(m.node)
        hdr = next((nd for nd in g.nodes if nd.kind == 'for' and nd.ast is lp), None)
        if hdr is None:
          continue
        emits = [nd for nd in g.nodes if nd.loops and nd.loops[-1] is lp and any(
            isinstance(c.func, ast.Attribute) and c.func.attr in ('append', 'add', 'extend', 'CopyFrom') for c in flow.node_calls(nd))]
        if not emits:
          continue
        n += 1
        starts = [nd for nd, lab in hdr.succs if nd.loops and nd.loops[-1] is lp]
        skipped = hdr in g.reachable(starts, blocked=emits, include_starts=True)
        tvars = {y.id for y in ast.walk(lp.target) if isinstance(y, ast.Name)}
        # a skip is a defect only if it is decided on the element itself
        if skipped:
          tests = [nd for nd in g.nodes if nd.kind == 'test' and nd.loops and nd.loops[-1] is lp
                   and any(isinstance(y, ast.Name) and y.id in tvars for y in ast.walk(nd.ast))]
          skipped = bool(tests)
        ctx.check(not skipped, 'R12', f'{ci.name}.{m.name}: one message per element of `{unparse(lp.iter, 30)}`', lp,
                  'every pass through the loop emits',
                  f'an element of `{unparse(lp.iter, 30)}` can be skipped depending on its own fields: what is received is not what was sent '
                  '(e.g. "keep running" decisions, or metrics with non-finite values, never arrive)', construct=f'{ci.name}.{m.name}:element-skipped',
                  func=m.qualname)
  if n < 1:
    raise AnalysisError('no element-wise emitting loop found in the converters')


def r13_endpoint_assign(ctx) -> None:
  sc = ctx.index.need_class('vizier._src.pyvizier.oss.study_config.StudyConfig')
  fi = sc.methods['to_proto']
  g = cfgmod.CFG(fi.node)
  sites = [(nd, c) for nd in g.nodes for c in flow.node_calls(nd) if (dotted(c.func) or '').endswith('assign')
           and any('PYTHIA_ENDPOINT_KEY' in unparse(k.value, 0) for k in c.keywords)]
  if not sites:
    raise AnalysisError('StudyConfig.to_proto: write of the Pythia endpoint not found')
  for nd, c in sites:
    kw = {k.arg: k.value for k in c.keywords}
    mode_ok = isinstance(kw.get('mode'), ast.Constant) and kw['mode'].value == 'insert_or_assign'
    extra = [unparse(t, 0) for t, pol in g.controlling_conditions(nd)
             if not (isinstance(t, ast.Compare) and len(t.ops) == 1 and isinstance(t.ops[0], (ast.IsNot, ast.Is))
                     and isinstance(t.comparators[0], ast.Constant) and t.comparators[0].value is None and 'pythia_endpoint' in unparse(t.left, 0))]
    ctx.check(mode_ok and not extra, 'R13', 'StudyConfig.to_proto: endpoint written with insert_or_assign whenever set', c,
              "mode='insert_or_assign', guarded by `pythia_endpoint is not None` only",
              (f'the write also depends on `{extra[0]}`' if extra else 'the write does not use insert_or_assign') +
              ': a config whose endpoint was changed after loading carries two KeyValues for the endpoint key (or the stale one only); readers '
              'that take the first match see the old endpoint, and a second conversion differs', construct='endpoint-assign', func=fi.qualname)


def r11_measurement_order(ctx, mi) -> None:
  tc = mi.classes.get('TrialConverter')
  if tc is None:
    raise AnalysisError('TrialConverter not found')
  for mname in ('from_proto', 'to_proto'):
    fi = tc.methods.get(mname)
    if fi is None:
      raise AnalysisError(f'TrialConverter.{mname} not found')
    par = [p for p in fi.params if p not in ('cls', 'self')][0]
    g = cfgmod.CFG(fi.node)
    prov = flow.Provenance(g, on_call=lambda c: 'args', on_attr=lambda a: 'stop' if (dotted(a) or '') == f'{par}.measurements' else 'through')
    uses = [x for x in ast.walk(fi.node) if isinstance(x, ast.Attribute) and dotted(x) == f'{par}.measurements']
    if not uses:
      raise AnalysisError(f'TrialConverter.{mname}: `{par}.measurements` is not read')
    bad = None
    for n in g.nodes:
      for c in flow.node_calls(n):
        d = dotted(c.func) or ''
        reorder = d in ('sorted', 'reversed', 'set', 'frozenset', 'random.sample', 'random.shuffle') or \
            (isinstance(c.func, ast.Attribute) and c.func.attr in ('sort', 'reverse'))
        if not reorder:
          continue
        subjects = list(c.args[:1]) + ([c.func.value] if isinstance(c.func, ast.Attribute) and c.func.attr in ('sort', 'reverse') else [])
        for sj in subjects:
          if any(k == 'attr' and dotted(v) == f'{par}.measurements' for k, v in prov.origins(sj, n)):
            bad = bad or c
      for e_ in flow.node_exprs(n):
        for x in ast.walk(e_):
          if isinstance(x, ast.Subscript) and isinstance(x.slice, ast.Slice) and dotted(x.value) == f'{par}.measurements':
            bad = bad or x
    ctx.check(bad is None, 'R11', f'TrialConverter.{mname}: measurement order', fi.node,
              'the repeated field is walked as stored',
              f'`{unparse(bad, 70) if bad is not None else ""}` re-orders or drops intermediate measurements during conversion: a trial whose '
              'measurements are not already in that order is not equal to itself after the round trip (and a second conversion differs from the first)',
              construct=f'{mname}:measurement-order', func=fi.qualname)


def r10_rebuilt_repeated_fields(ctx, schema) -> None:
  sc = ctx.index.need_class('vizier._src.pyvizier.oss.study_config.StudyConfig')
  fi = sc.methods.get('to_proto')
  if fi is None:
    raise AnalysisError('StudyConfig.to_proto not found')
  msg = schema.message('vizier.StudySpec') or next((schema.message(k) for k in ('StudySpec', 'vizier.service.StudySpec') if schema.message(k)), None)
  if msg is None:
    raise AnalysisError('StudySpec message not found in the .proto schema')
  repeated = {f.name for f in msg.fields.values() if f.repeated}
  g = cfgmod.CFG(fi.node)
  dom = g.dominators()
  base = None
  for n in g.nodes:
    if n.kind == 'stmt' and isinstance(n.ast, ast.Assign) and isinstance(n.ast.value, ast.Call) \
        and (dotted(n.ast.value.func) or '').endswith('deepcopy') and n.ast.value.args \
        and (dotted(n.ast.value.args[0]) or '').startswith('self._') and isinstance(n.ast.targets[0], ast.Name):
      base = n.ast.targets[0].id
  if base is None:
    ctx.ok('R10', 'StudyConfig.to_proto', fi.node, 'does not start from a remembered proto')
    ctx.ok('R10', 'StudyConfig.to_proto (no remembered proto)', fi.node, 'nothing to clear')
    return
  writes: Dict[str, List] = {}
  clears: Dict[str, List] = {}
  for n in g.nodes:
    for e_ in flow.node_exprs(n):
      for x in ast.walk(e_):
        if isinstance(x, ast.Call) and isinstance(x.func, ast.Attribute):
          recv = dotted(x.func.value) or ''
          if recv.startswith(base + '.') and recv.count('.') == 1 and recv.split('.')[1] in repeated \
              and x.func.attr in ('extend', 'append', 'add', 'MergeFrom', 'insert'):
            writes.setdefault(recv.split('.')[1], []).append(n)
          if recv == base and x.func.attr == 'ClearField' and x.args and isinstance(x.args[0], ast.Constant):
            clears.setdefault(x.args[0].value, []).append(n)
          if any(isinstance(a, ast.Name) and a.id == base for a in x.args) and 'metadata' in (dotted(x.func) or '') and 'metadata' in repeated:
            writes.setdefault('metadata', []).append(n)
    if n.kind == 'stmt' and isinstance(n.ast, ast.Delete):
      for t in n.ast.targets:
        if isinstance(t, ast.Subscript) and isinstance(t.slice, ast.Slice) and (dotted(t.value) or '').startswith(base + '.'):
          clears.setdefault((dotted(t.value) or '').split('.')[1], []).append(n)
  if len(writes) < 2:
    raise AnalysisError(f'StudyConfig.to_proto: repeated fields written: {sorted(writes)} (metrics, parameters, metadata on the pinned tree)')
  for f, ws in sorted(writes.items()):
    ok = all(any(c.id in dom[w.id] for c in clears.get(f, [])) for w in ws)
    ctx.check(ok, 'R10', f'StudyConfig.to_proto: `{f}` cleared before it is rebuilt', where_(fi, ws[0]),
              f'del {base}.{f}[:] / ClearField dominates every write',
              f'`{base}` is a copy of the proto remembered from from_proto and its repeated field `{f}` is appended to / merged into without '
              'being cleared first: entries that were removed or renamed on the Python object are transmitted anyway', construct=f'to_proto:{f}',
              func=fi.qualname)


def where_(fi, node) -> str:
  return f'{fi.file}:{getattr(node, "lineno", 0)}'


def r9_time_conventions(ctx, mi) -> None:
  """Times cross the wire as epoch seconds/nanos and come back through the same convention.

  pyvizier's Trial normalises its datetimes with astimezone() (naive = local time).  Timestamp.ToDatetime()
  without tzinfo, datetime.utcfromtimestamp() and utcnow() produce *naive UTC* values, which astimezone() then
  reads as local time: every time shifts by the host's UTC offset (invisible on UTC machines).
  """
  n_ok = 0
  hits = []
  for x in ast.walk(mi.tree):
    if not isinstance(x, ast.Call):
      continue
    d = dotted(x.func) or ''
    last = d.rsplit('.', 1)[-1]
    if last == 'ToDatetime' and not any(k.arg == 'tzinfo' for k in x.keywords):
      hits.append(x)
    elif last in ('utcfromtimestamp', 'utcnow'):
      hits.append(x)
    elif last in ('fromtimestamp', 'timestamp'):
      n_ok += 1
  fn = lambda x: next((a.name for a in __import__('vzstatic.source', fromlist=['ancestors']).ancestors(x) if isinstance(a, ast.FunctionDef)), '?')
  # components of a timedelta (`.seconds` wraps at one day, `.microseconds` at one second) used without `.days`
  for x in ast.walk(mi.tree):
    if isinstance(x, ast.Attribute) and x.attr in ('seconds', 'microseconds') and isinstance(x.ctx, ast.Load):
      f_ = next((a for a in __import__('vzstatic.source', fromlist=['ancestors']).ancestors(x) if isinstance(a, ast.FunctionDef)), None)
      base = flow.resolve_local(f_, x.value) if f_ is not None else x.value
      is_td = (isinstance(base, ast.Call) and (dotted(base.func) or '').endswith('timedelta')) or \
          (isinstance(base, ast.BinOp) and isinstance(base.op, ast.Sub))
      if is_td and x.attr == 'seconds' and f_ is not None and not any(
          isinstance(y, ast.Attribute) and y.attr == 'days' for y in ast.walk(f_)):
        ctx.bad('R9', f'{fn(x)}: `{unparse(x, 40)}`', x,
                f'`{unparse(x, 40)}` is the seconds *component* of a timedelta (0..86399), not its length: every whole day of a duration is dropped '
                '(a measurement taken after 25 h arrives as 1 h); total_seconds() is the length', construct=f'{fn(x)}:timedelta-seconds',
                func=f'{mi.name}.{fn(x)}')
  for h in hits:
    ctx.bad('R9', f'{fn(h)}: `{unparse(h, 50)}`', h,
            f'`{unparse(h, 60)}` yields a naive UTC datetime; the Python-side class interprets naive datetimes as local time, so on a host '
            'whose UTC offset is not zero every converted time is shifted by the offset and a second conversion differs',
            construct=f'{fn(h)}:naive-utc', func=f'{mi.name}.{fn(h)}')
  if not hits and n_ok == 0:
    raise AnalysisError('no datetime <-> Timestamp conversion found in proto_converters (fromtimestamp/timestamp: 4 on the pinned tree)')
  if not hits:
    ctx.ok('R9', 'time conversions are epoch-based (fromtimestamp / timestamp)', mi.tree, f'{n_ok} sites; no naive-UTC helper')


# ----------------------------------------------------------------------- R8
def r8_children_not_keyed_by_name(ctx, mi) -> None:
  """Conditional children are identified by (parent value, name): the same name may be defined differently
  under two parent values, so conversion code must not collect `child_parameter_configs` in a map keyed by name."""
  ci = mi.classes.get('ParameterConfigConverter')
  if ci is None:
    raise AnalysisError('ParameterConfigConverter not found')
  n = 0
  for m in ci.methods.values():
    loops = [x for x in ast.walk(m.node) if isinstance(x, (ast.For, ast.comprehension))
             and 'child_parameter_configs' in unparse(x.iter, 0)]
    if not loops:
      continue
    n += 1
    lvars = {nm.id for l in loops for nm in ast.walk(l.target) if isinstance(nm, ast.Name)}
    hits = []
    for x in ast.walk(m.node):
      key = None
      if isinstance(x, ast.Subscript) and isinstance(x.ctx, ast.Store):
        key = x.slice
      elif isinstance(x, ast.Call) and isinstance(x.func, ast.Attribute) and x.func.attr in ('setdefault', 'get', 'pop') and x.args:
        key = x.args[0]
      elif isinstance(x, ast.DictComp):
        key = x.key
      if key is not None and isinstance(key, ast.Attribute) and key.attr == 'name' and isinstance(key.value, ast.Name) \
          and key.value.id in lvars:
        hits.append(x)
      elif key is not None and isinstance(x, (ast.Subscript, ast.Call, ast.DictComp)):
        # a key computed from the child (its serialisation, its domain, ...) merges children just the same
        derived = set(lvars)
        for _ in range(3):
          for a_ in ast.walk(m.node):
            if isinstance(a_, ast.Assign) and len(a_.targets) == 1 and isinstance(a_.targets[0], ast.Name) \
                and any(isinstance(y, ast.Name) and y.id in derived for y in ast.walk(a_.value)):
              derived.add(a_.targets[0].id)
        kr = flow.resolve_local(m.node, key)
        base_is_map = isinstance(x, ast.Subscript) and isinstance(x.value, ast.Name) and any(
            isinstance(a_, (ast.Assign, ast.AnnAssign)) and isinstance(getattr(a_, 'value', None), (ast.Dict, ast.Call))
            and any(isinstance(t_, ast.Name) and t_.id == x.value.id for t_ in (a_.targets if isinstance(a_, ast.Assign) else [a_.target]))
            and (isinstance(a_.value, ast.Dict) or (dotted(a_.value.func) or '').rsplit('.', 1)[-1] in ('dict', 'defaultdict', 'OrderedDict'))
            for a_ in ast.walk(m.node))
        if (base_is_map or isinstance(x, ast.DictComp)) and any(isinstance(y, ast.Name) and y.id in derived for y in ast.walk(kr)):
          hits.append(x)
    ctx.check(not hits, 'R8', f'{ci.name}.{m.name}: children kept per (parent value, child)', hits[0] if hits else m.node,
              'children are converted one by one, never merged by name',
              f'`{unparse(hits[0], 70) if hits else ""}` collects the children in a map keyed by their name: children with the same name '
              'under different parent values (e.g. lr LOG under adam, lr LINEAR under sgd) are merged into one spec, so the later '
              'branches silently receive the first definition', construct=f'{m.name}:keyed-by-name', func=m.qualname)
  if n == 0:
    raise AnalysisError('no method of ParameterConfigConverter iterates child_parameter_configs')


# ----------------------------------------------------------------------- R3
def r3_truthy(ctx, schema, ci, fi, ex: Extractor, own_only: bool = False) -> None:
  for a in ex.accesses:
    if a.kind != 'truthy':
      continue
    if own_only and not (a.func == fi.qualname or (fi.cls and a.func.startswith(fi.cls.qualname + '._'))):
      continue
    lp, _ = leaf_pairs(schema, a)
    for t, f in lp:
      fld = schema.field_type(t, f)
      if fld is not None and fld.optional and t not in WRAPPER_TYPES:
        ctx.bad('R3', f'{ci.name}.{fi.name}: presence of {".".join(a.path[-2:])}', a.node,
                f'`{unparse(a.node, limit=80)}` decides whether the proto3 `optional` field {t}.{f} is set by '
                'its truthiness: an explicitly set falsy value (0, 0.0, \'\', False) is treated as absent; '
                'presence must be tested with HasField',
                construct=a.node, func=fi.qualname)
        return
      if fld is not None and fld.type in ('string', 'bytes') and not fld.repeated and not fld.optional \
          and t not in WRAPPER_TYPES and fi.name.startswith('from'):
        ctx.bad('R3', f'{ci.name}.{fi.name}: truthiness of string field {".".join(a.path[-2:])}', a.node,
                f'`{unparse(a.node, limit=80)}` lets the truthiness of the plain string field {t}.{f} decide what is restored: a proto3 '
                'string has no presence, so a legitimately empty value (e.g. an infeasible trial completed without a reason) is '
                'read back as "not set" and the object changes (an INFEASIBLE trial turns into an unfinished one)',
                construct=a.node, func=fi.qualname)
        return
      if t in WRAPPER_TYPES and f == 'value':
        ctx.bad('R3', f'{ci.name}.{fi.name}: presence of {".".join(a.path[-2:])}', a.node,
                f'`{unparse(a.node, limit=80)}` decides whether the optional value is set by the '
                f'truthiness of {t.rsplit(".", 1)[-1]}.value: a legitimately falsy value (0, 0.0, \'\') is '
                'treated as absent and dropped; presence must be tested with HasField',
                construct=a.node, func=fi.qualname)
        return
  if fi.name.startswith('from'):
    ctx.ok('R3', f'{ci.name}.{fi.name}', fi.node, 'no truthiness test on a wrapper value')


# ----------------------------------------------------------------------- R2
def _class_fields(ctx, ci: ClassInfo) -> Dict[str, str]:
  """attrs/dataclass field -> public init name."""
  out = {}
  for c in ctx.index.mro(ci):
    for name, ann in c.annotations.items():
      if name.startswith('__') or name in out:
        continue
      v = c.assigns.get(name)
      if isinstance(v, ast.Call) and any(k.arg == 'init' and isinstance(k.value, ast.Constant) and k.value.value is False
                                         for k in v.keywords):
        continue
      out[name] = name.lstrip('_')
    for name, v in c.assigns.items():
      if name in out or name.startswith('__'):
        continue
      if isinstance(v, ast.Call) and (dotted(v.func) or '').split('.')[-1] in ('ib', 'field', 'attrib'):
        if any(k.arg == 'init' and isinstance(k.value, ast.Constant) and k.value.value is False for k in v.keywords):
          continue
        out[name] = name.lstrip('_')
  return out


def _property_reads(ctx, ci: ClassInfo, name: str, depth: int = 0) -> Set[str]:
  """Fields of self read by property/method `name` (expanded 2 levels)."""
  m = ctx.index.find_method(ci, name)
  if m is None or depth > 2:
    return set()
  out = set()
  for x in ast.walk(m.node):
    if isinstance(x, ast.Attribute) and isinstance(x.value, ast.Name) and x.value.id == 'self':
      out.add(x.attr)
  return out


def r2_object_side(ctx, mi, pairs) -> None:
  for ci, wf, rf in pairs:
    if ci.name == 'StudyConfig':
      continue
    # python type: annotation of the writer's first non-cls parameter
    params = [a for a in wf.node.args.args if a.arg not in ('cls', 'self')]
    if not params or params[0].annotation is None:
      continue
    ann = params[0].annotation
    d = dotted(ann)
    if d is None:
      continue
    sym = ctx.index.resolve(mi, d)
    if not isinstance(sym, ClassInfo):
      continue
    pname = params[0].arg
    fields = _class_fields(ctx, sym)
    pub = {v: k for k, v in fields.items()}
    if not fields:
      continue
    read_attrs = set()
    for x in ast.walk(wf.node):
      if isinstance(x, ast.Attribute) and isinstance(x.value, ast.Name) and x.value.id == pname:
        read_attrs.add(x.attr)
    # expand properties into the fields they read
    wfields = set()
    from vzstatic.source import parent as _parent2
    if any(isinstance(x, ast.Name) and x.id == pname and not isinstance(_parent2(x), ast.Attribute)
           for x in ast.walk(wf.node)):
      wfields = set(pub)  # the object itself is iterated / handed on: all of it is read
    for a in read_attrs:
      if a in fields or a in pub or ('_' + a) in fields:
        wfields.add(a.lstrip('_'))
      else:
        for r in _property_reads(ctx, sym, a):
          if r in fields or r.lstrip('_') in pub:
            wfields.add(r.lstrip('_'))
          else:
            for r2 in _property_reads(ctx, sym, r, 1):
              if r2 in fields or r2.lstrip('_') in pub:
                wfields.add(r2.lstrip('_'))
    # reader: constructor call of the same class
    ctor_kw: Optional[Set[str]] = None
    for c in flow.calls_in(rf.node):
      s2 = ctx.index.resolve(mi, dotted(c.func) or '')
      if isinstance(s2, ClassInfo) and s2.qualname == sym.qualname:
        ctor_kw = {k.arg for k in c.keywords if k.arg}
        none_kw = {k.arg for k in c.keywords if k.arg and isinstance(k.value, ast.Constant) and k.value.value is None}
        ctor_kw -= none_kw
        order = list(fields.values())
        for i, _ in enumerate(c.args):
          if i < len(order):
            ctor_kw.add(order[i])
        # object filled after construction: x = Cls(); x.f[...] = v / x.f.g(...) = v
        from vzstatic.source import parent as _parent
        par = _parent(c)
        if isinstance(par, ast.Assign) and len(par.targets) == 1 and isinstance(par.targets[0], ast.Name):
          objv = par.targets[0].id

          def root_fields(chain, aliases):
            """Fields of the constructed object that an access chain may be rooted in (through local aliases)."""
            while isinstance(chain, (ast.Attribute, ast.Subscript, ast.Call)):
              nxt = chain.value if isinstance(chain, (ast.Attribute, ast.Subscript)) else chain.func
              if isinstance(nxt, ast.Name) and nxt.id == objv and isinstance(chain, ast.Attribute):
                return {chain.attr.lstrip('_')}
              if isinstance(nxt, ast.Name) and nxt.id in aliases:
                return set(aliases[nxt.id])
              chain = nxt
            return set()
          # u = x.f / u = x.f[k] (on any branch): stores through u fill field f
          aliases: Dict[str, Set[str]] = {}
          for _ in range(3):
            for x in ast.walk(rf.node):
              if isinstance(x, ast.Assign) and len(x.targets) == 1 and isinstance(x.targets[0], ast.Name) \
                  and not isinstance(x.value, ast.Name):
                fs_ = root_fields(x.value, aliases)
                if fs_:
                  aliases.setdefault(x.targets[0].id, set()).update(fs_)
          for x in ast.walk(rf.node):
            if isinstance(x, ast.Assign):
              for t in x.targets:
                if not isinstance(t, ast.Name):
                  ctor_kw |= root_fields(t, aliases)
    if ctor_kw is None:
      continue
    allf = set(pub)
    inst = f'{ci.name}: python class {sym.name}'
    probs = []
    for f in sorted(allf):
      w, r = f in wfields, f in ctor_kw
      if w and r:
        continue
      if not w and not r:
        if (sym.name, f) in NOT_TRANSMITTED:
          continue
        probs.append((f, 'is neither written to the proto nor restored (not in the documented not-transmitted list)'))
      elif w and not r:
        probs.append((f, f'is written by {wf.name} but not restored by {rf.name}'))
      else:
        if (sym.name, f) in NOT_TRANSMITTED:
          continue
        probs.append((f, f'is set by {rf.name} but never written by {wf.name}'))
    for f, why in probs:
      ctx.bad('R2', f'{inst}.{f}', rf.node, f'field `{sym.name}.{f}` {why}: it does not survive the round trip',
              construct=f'{sym.name}.{f}', func=ci.qualname)
    if not probs:
      ctx.ok('R2', inst, rf.node, f'{len(allf)} fields: written and restored, or documented as not transmitted')


# ----------------------------------------------------------------------- R4
def _enum_members(ctx, mi, expr) -> Optional[Tuple[str, List[str]]]:
  d = dotted(expr)
  if d is None:
    return None
  sym = ctx.index.resolve(mi, d)
  if isinstance(sym, ClassInfo):
    return sym.qualname, [k for k in sym.assigns if not k.startswith('_')]
  return None


def _r4_enum_round_trip(ctx, mi, ci, items) -> None:
  """from_proto(to_proto(m)) == m for every member of the forward table: the reverse table expression and the two
  lookup methods (found through base classes) are interpreted on the table, members standing for themselves."""
  from vzstatic import pathcond
  to_m, from_m = ctx.index.find_method(ci, 'to_proto'), ctx.index.find_method(ci, 'from_proto')
  rev = ci.assigns.get('_proto_to_pyvizier')
  if to_m is None or from_m is None or rev is None:
    ctx.bad('R4', f'{ci.name}: enum round trip', ci.node, 'to_proto / from_proto / _proto_to_pyvizier not all present',
            construct='enum-round-trip', func=ci.qualname)
    return
  fwd = {unparse(k, 0): unparse(v, 0) for k, v in items}
  env: Dict[str, object] = {}
  # enum members stand for their own spelling
  for node in (to_m.node, from_m.node, rev):
    for x in ast.walk(node):
      if isinstance(x, ast.Attribute) and x.attr.isupper() and dotted(x):
        env[unparse(x, 0)] = unparse(x, 0)
  for k, v in fwd.items():
    env[k], env[v] = k, v
  helpers = {f.name: f.node for f in mi.functions.values()}
  env['__callhook__'] = pathcond.method_hook(helpers)
  for owner in ('cls', 'self', ci.name):
    env[f'{owner}._pyvizier_to_proto'] = dict(fwd)
  env['_pyvizier_to_proto'] = dict(fwd)
  try:
    revtab = pathcond.neval(rev, env)
  except pathcond.NoValue as e:
    raise AnalysisError(f'{ci.name}._proto_to_pyvizier: `{unparse(rev, 60)}` is outside the table model ({e})')
  if not isinstance(revtab, dict):
    raise AnalysisError(f'{ci.name}._proto_to_pyvizier does not evaluate to a table')
  for owner in ('cls', 'self', ci.name):
    env[f'{owner}._proto_to_pyvizier'] = dict(revtab)
  wrong = []
  for k in fwd:
    try:
      e1 = dict(env)
      e1[to_m.params[-1]] = k
      p_ = pathcond.run_concrete(to_m.node, e1, tolerant=True)
      e2 = dict(env)
      e2[from_m.params[-1]] = p_
      back = pathcond.run_concrete(from_m.node, e2, tolerant=True)
    except pathcond.Raised as e:
      back = f'raise {e}'
    except pathcond.LookupFailed as e:
      back = f'KeyError at {e}'
    except pathcond.NoValue as e:
      raise AnalysisError(f'{ci.name}: to_proto/from_proto outside the table model ({e})')
    if back != k:
      wrong.append((k, back))
  ctx.check(not wrong, 'R4', f'{ci.name}: from_proto(to_proto(m)) == m', rev,
            f'{len(fwd)} members round-trip through the reverse table and both lookups',
            f'members that do not come back: {wrong[:4]}', construct='enum-round-trip', func=ci.qualname)


def r4_enums(ctx, schema: Schema, mi) -> None:
  n = 0
  for ci in mi.classes.values():
    tab = ci.assigns.get('_pyvizier_to_proto')
    if tab is None:
      continue
    items: List[Tuple[ast.AST, ast.AST]] = []
    if isinstance(tab, ast.Dict) and not tab.keys and any(
        ci in [b for b in ctx.index.bases(o) if isinstance(b, ClassInfo)] for o in mi.classes.values()):
      continue  # empty placeholder of a shared base class: the subclasses provide the tables
    if isinstance(tab, ast.Dict):
      items = list(zip(tab.keys, tab.values))
    elif isinstance(tab, ast.Call) and dotted(tab.func) == 'dict' and tab.args and isinstance(tab.args[0], ast.List):
      for el in tab.args[0].elts:
        if isinstance(el, ast.Tuple) and len(el.elts) == 2:
          items.append((el.elts[0], el.elts[1]))
    if not items:
      raise AnalysisError(f'{ci.name}._pyvizier_to_proto is not a dict literal')
    n += 1
    keys = [unparse(k, 0) for k, _ in items]
    vals = [unparse(v, 0) for _, v in items]
    probs = []
    if len(set(vals)) != len(vals):
      probs.append('two python members map to one proto value (the reverse table loses one)')
    if len(set(keys)) != len(keys):
      probs.append('duplicate key')
    pyenum = _enum_members(ctx, mi, items[0][0].value if isinstance(items[0][0], ast.Attribute) else items[0][0])
    if pyenum is not None:
      have = {k.rsplit('.', 1)[-1] for k in keys}
      excluded = set()
      if ci.name == '_ScaleTypeMap':
        excluded = {'UNIFORM_DISCRETE'}  # writer guards `scale_type != UNIFORM_DISCRETE` (checked below)
      if ci.name == 'StudyStateConverter':
        excluded = set()
      missing = [m for m in pyenum[1] if m not in have and m not in excluded]
      if missing and ci.name != 'StudyStateConverter':
        probs.append(f'python members {missing} have no proto value (to_proto raises KeyError)')
    ctx.check(not probs, 'R4', f'{ci.name}._pyvizier_to_proto', tab,
              f'{len(items)} entries, injective and total', '; '.join(probs), construct='; '.join(probs), func=ci.qualname)
    _r4_enum_round_trip(ctx, mi, ci, items)
  if n < 3:
    raise AnalysisError(f'only {n} enum tables found')
  # UNIFORM_DISCRETE exclusion is really guarded in the writer
  pcc = mi.classes.get('ParameterConfigConverter')
  if pcc is not None:
    w = pcc.methods['to_proto']
    from vzstatic import enumeval
    from vzstatic import cfg as cfgmod
    gw = cfgmod.CFG(w.node)
    guarded = True
    n_calls = 0
    for c in [x for x in ast.walk(w.node) if isinstance(x, ast.Call) and (dotted(x.func) or '').endswith('_ScaleTypeMap.to_proto') and x.args]:
      n_calls += 1
      subj = unparse(c.args[0], 0)
      conds = gw.controlling_conditions(gw.node_of(c))
      excl = any(enumeval.eval_test(t, {subj: 'UNIFORM_DISCRETE'}) is (not pol) for t, pol in conds)
      none_excl = any(enumeval.eval_test(t, {subj: None}) is (not pol) for t, pol in conds)
      guarded = guarded and excl and none_excl
    if n_calls == 0:
      raise AnalysisError('ParameterConfigConverter.to_proto: call of _ScaleTypeMap.to_proto not found')
    ctx.check(guarded, 'R4', 'ParameterConfigConverter.to_proto: UNIFORM_DISCRETE excluded', w.node,
              'scale_type UNIFORM_DISCRETE (no proto value) is not sent to the table',
              'UNIFORM_DISCRETE reaches _ScaleTypeMap.to_proto, which has no entry for it', construct='uniform-discrete', func=w.qualname)
  # trial state functions
  st = schema.enums['vizier.Trial.State'].values
  f_to = mi.functions.get('_to_pyvizier_trial_status')
  f_from = mi.functions.get('_from_pyvizier_trial_status')
  if f_to is None or f_from is None:
    raise AnalysisError('trial status conversion functions not found')
  mentioned = {x.attr for x in ast.walk(f_to.node) if isinstance(x, ast.Attribute) and x.attr in st}
  for nm in flow.names_in(f_to.node):
    if nm in mi.assigns:
      mentioned |= {x.attr for x in ast.walk(mi.assigns[nm]) if isinstance(x, ast.Attribute) and x.attr in st}
  missing = [s for s in st if s not in mentioned and s != 'STATE_UNSPECIFIED']
  ctx.check(not missing, 'R4', '_to_pyvizier_trial_status covers Trial.State', f_to.node,
            f'arms for {sorted(mentioned)}', f'no arm for {missing}: such trials become UNKNOWN', construct=str(missing), func=f_to.qualname)
  # both completed states map to COMPLETED (the function is evaluated member by member)
  from vzstatic import enumeval
  par = f_to.params[0]
  table = {}
  for m in st:
    r = enumeval.run_function(f_to.node.body, {par: m})
    if isinstance(r, ast.AST):
      v = enumeval.value_of(r, {par: m}, mi.assigns)
      table[m] = '?' if v is enumeval.UNKNOWN else str(v)
    else:
      table[m] = '?' if r is enumeval.UNKNOWN else str(r)
  want = {'SUCCEEDED': 'COMPLETED', 'INFEASIBLE': 'COMPLETED', 'REQUESTED': 'REQUESTED', 'ACTIVE': 'ACTIVE', 'STOPPING': 'STOPPING'}
  wrong = {m: table.get(m) for m, w_ in want.items() if m in st and table.get(m) != w_}
  ctx.check(not wrong, 'R4', 'SUCCEEDED and INFEASIBLE both map to COMPLETED', f_to.node,
            f'state -> status table {table}', f'proto states are mapped to the wrong status: {wrong} (expected {want})',
            construct='completed-map', func=f_to.qualname)
  produced = {x.attr for x in ast.walk(f_from.node) if isinstance(x, ast.Attribute) and x.attr in st}
  for nm in flow.names_in(f_from.node):
    if nm in mi.assigns:
      produced |= {x.attr for x in ast.walk(mi.assigns[nm]) if isinstance(x, ast.Attribute) and x.attr in st}
  missing2 = [s for s in st if s not in produced]
  ctx.check(not missing2, 'R4', '_from_pyvizier_trial_status produces every Trial.State', f_from.node,
            f'produces {sorted(produced)}', f'never produces {missing2}', construct=str(missing2), func=f_from.qualname)


# ----------------------------------------------------------------------- R5
COPYING_METHODS = ('append', 'extend', 'CopyFrom', 'MergeFrom', 'insert')


def r5_write_after_copy(ctx, schema: Schema, mi, sc: ClassInfo) -> None:
  ex = Extractor(ctx.index, schema)
  funcs = [m for c in mi.classes.values() for m in c.methods.values()] + list(mi.functions.values()) + \
      [sc.methods['to_proto']]
  n_sites = 0
  for fi in funcs:
    g = cfgmod.CFG(fi.node)
    rd = flow.ReachingDefs(g)
    # local message variables: assigned from a constructor or a converter call
    msg_vars: Dict[str, Set[int]] = {}
    for n in g.nodes:
      for d in rd.gen[n.id]:
        if d.kind == 'assign' and isinstance(d.value, ast.Call):
          t = ex.pb_type(fi.module, d.value.func)
          callee = ex._callee(fi, d.value)
          is_msg = (t is not None and schema.is_message(t)) or (
              callee is not None and callee.node.returns is not None
              and ex.pb_type(callee.module, callee.node.returns) is not None
              and not isinstance(callee.node.returns, ast.Subscript))
          if is_msg:
            msg_vars.setdefault(d.name, set()).add(n.id)
    if not msg_vars:
      continue
    # copy sites
    for n in g.nodes:
      if n.kind in ('entry', 'exit', 'raise'):
        continue
      copied: List[Tuple[str, ast.AST]] = []
      for c in flow.node_calls(n):
        t = ex.pb_type(fi.module, c.func)
        if t and schema.is_message(t):
          for k in c.keywords:
            if isinstance(k.value, ast.Name) and k.value.id in msg_vars:
              copied.append((k.value.id, c))
        if isinstance(c.func, ast.Attribute) and c.func.attr in COPYING_METHODS:
          for a in c.args:
            names = [a] if isinstance(a, ast.Name) else (a.elts if isinstance(a, (ast.List, ast.Tuple)) else [])
            for nm in names:
              if isinstance(nm, ast.Name) and nm.id in msg_vars:
                copied.append((nm.id, c))
      for var, site in copied:
        n_sites += 1
        # nodes reachable after the copy without `var` being rebound
        rebind = [m for m in g.nodes if any(d.name == var and d.kind in ('assign', 'for', 'with') for d in rd.gen[m.id])]
        after = g.reachable([n], blocked=[m for m in rebind if m is not n])
        lost = None
        for m in after:
          if m.kind in ('entry', 'exit', 'raise'):
            continue
          a = m.ast
          if m.kind == 'stmt' and isinstance(a, (ast.Assign, ast.AugAssign)):
            tg = a.targets if isinstance(a, ast.Assign) else [a.target]
            for t in tg:
              if isinstance(t, (ast.Attribute, ast.Subscript)) and flow.root_name(t) == var:
                lost = (m, 'assigns a field of it')
          for c in flow.node_calls(m):
            if isinstance(c.func, ast.Attribute) and flow.root_name(c.func.value) == var \
                and c.func.attr in ('add', 'append', 'extend', 'CopyFrom', 'MergeFrom', 'ClearField', 'Clear', 'Pack'):
              lost = (m, f'calls .{c.func.attr}() on it')
            callee = ex._callee(fi, c)
            if callee is not None and any(isinstance(x, ast.Name) and x.id == var for x in c.args):
              pos = [i for i, x in enumerate(c.args) if isinstance(x, ast.Name) and x.id == var][0]
              params = [p for p in callee.params if p not in ('self', 'cls')]
              if pos < len(params):
                sub = Extractor(ctx.index, schema)
                t0 = None
                for p_ in callee.node.args.args:
                  if p_.arg == params[pos] and p_.annotation is not None:
                    t0 = sub.pb_type(callee.module, p_.annotation)
                if t0:
                  sub.analyse(callee, {params[pos]: Ref(t0, (), (t0,), False)})
                  if any(x.kind == 'write' and x.root == t0 for x in sub.accesses):
                    lost = (m, f'passes it to {callee.name}(), which writes into its argument')
          if lost:
            break
        ctx.check(lost is None, 'R5', f'{fi.qualname.rsplit(".", 2)[-2]}.{fi.name}: `{var}` copied at line {n.lineno}',
                  site, 'not modified after the copy',
                  f'`{var}` is copied into its container at line {n.lineno} (protobuf copies on constructor '
                  f'keyword / append / extend / CopyFrom) and line {lost[0].lineno if lost else 0} then {lost[1] if lost else ""}: '
                  'that change never reaches the container and is silently lost',
                  construct=f'{var} copied then modified', func=fi.qualname,
                  path=[n, lost[0]] if lost else None)
  if n_sites < 2:
    raise AnalysisError(f'only {n_sites} message copy sites recognised')


VARIANTS = [
    Variant('drop-step-count-write', PC, '    proto.step_count = measurement.steps\n', '', rule='R'),
    Variant('drop-infeasible-reason-read', PC,
            '      infeasibility_reason = proto.infeasible_reason',
            "      infeasibility_reason = ''", rule='R1'),
    Variant('hasfield-to-truthiness', PC,
            "    if proto.safety_config.HasField('desired_min_safe_trials_fraction'):",
            "    if proto.safety_config.desired_min_safe_trials_fraction:", rule='R'),
    Variant('enum-map-drop-entry', PC,
            '      (ExternalType.FLOAT, _ExternalTypePb2.AS_FLOAT),\n', '', rule='R4'),
    Variant('enum-map-not-injective', PC,
            'ScaleType.REVERSE_LOG: _ScaleTypePb2.UNIT_REVERSE_LOG_SCALE',
            'ScaleType.REVERSE_LOG: _ScaleTypePb2.UNIT_LOG_SCALE', rule='R4'),
    Variant('trial-drop-client-id-kw', PC,
            "        assigned_worker=proto.client_id or None,\n", '', rule='R'),
    Variant('suggest-request-drop-count', PC,
            '        count=proto.count,\n', '        count=1,\n', rule='R1'),
    Variant('benign-rename-local', PC, 'int_seconds', 'whole_seconds', expect='silent', count=3),
]
