"""C12 — algorithms get each completed trial exactly once, and all active trials.

Decides the *plumbing* exactly-once delivery rests on:
  R1 stateful policy: initialise/load -> update(newly completed, all active)
     -> suggest -> dump, in that order on every path, and the two arguments of
     update() are exactly what the loader returned;
  R2 the incorporated-id set is written only by clear / load /
     get_newly_completed_trials; there it grows by exactly the ids of the
     trials it returns; the query asks for COMPLETED trials with ids = all -
     incorporated; active trials are fetched with status ACTIVE and no id
     filter; dump and load use one key;
  R3 stateless policy: a fresh designer per request, fed all COMPLETED and all
     ACTIVE trials without id filters;
  R4 supporters pass each filter argument to the matching filter field, and
     TrialFilter applies every field;
  R5 when persisted state cannot be decoded, the cache is cleared together
     with re-creating the designer.
The history-level claim (id reuse after deletion, gaps) depends on runtime id
sequences and is not decided.
"""

from __future__ import annotations

import ast
from typing import Tuple, Dict, List, Optional, Set

from vzstatic import cfg as cfgmod
from vzstatic import flow
from vzstatic import pathcond
from vzstatic.index import ClassInfo, FuncInfo, dotted
from vzstatic.selftest import Variant
from vzstatic.source import AnalysisError, ancestors, loc, unparse

MANIFEST = {
    'technique': ('dominance/ordering over the policy CFGs, def-use from the trial loader to '
                  'Designer.update, write-set restriction on the incorporated-id field, '
                  'argument-to-field pairing of the trial filters'
                  '; presence tests of optional filters (`is None` vs truthiness); completeness of ListTrials (pagination vs callers); shared C09.R3'
                  '; finite-model truth table of TrialFilter.__call__ (loop-free concrete interpreter, same-class helpers followed); per-request policy provenance in the Pythia servicer'),
    'level_text': (
        'Static: the order load -> update -> suggest -> dump, the identity of what is loaded and '
        'what is passed to update(), the single place where the incorporated-id set grows (by '
        'the ids of exactly the returned trials), the status/id arguments of every trial query '
        'and the filter plumbing of both supporters. Necessary for "each completed trial exactly '
        'once plus all active trials". Histories with id reuse after deletion are not decided.'),
    'level_note': 'Trusted: set algebra, json round trip of an int list.',
}

DP = 'vizier._src.algorithms.policies.designer_policy'
TC = 'vizier._src.algorithms.policies.trial_caches'


def run(ctx) -> None:
  ctx.rule('R1', 'stateful policy: initialise -> update(new completed, all active) -> suggest -> dump', 3)
  ctx.rule('R2', 'incorporated-id set: restricted writers, grows by the returned trials, queries by status', 6)
  ctx.rule('R3', 'stateless policy: fresh designer and all COMPLETED + ACTIVE trials per request', 3)
  ctx.rule('R4', 'trial filter plumbing in both supporters and TrialFilter', 9)
  ctx.rule('R5', 'undecodable state: cache cleared together with the new designer', 1)
  ctx.rule('R6', 'the service builds a fresh policy per request: the policy factory keeps no policies between calls', 1)
  ctx.rule('R7', 'optional filters are present-tested with `is None`: an empty id set selects nothing, it is not "no filter"', 4)
  ctx.rule('R8', 'ListTrials hands the algorithm every stored trial: no truncated page without callers following next_page_token', 1)
  ctx.import_rules('C09', {'R3'}, 'R9', 'a stored INFEASIBLE trial reaches the algorithm as a completed one whatever its reason text (no truthiness of plain strings)')
  ctx.import_rules('C01', {'R3'}, 'R12', 'the persisted policy state is loaded inside the operation lock of the request that uses it')
  ctx.import_rules('C10', {'R2'}, 'R11', 'the delivered-id list the policy persists is stored whole on every request (metadata merges drop nothing)')
  ctx.import_rules('C07', {'R6', 'R8'}, 'R10', 'the trials listed for the algorithm are exactly the stored trials of this study: copy-on-read, exact key filters')
  r1_base_policy(ctx)
  r2_loader(ctx)
  r3_stateless(ctx)
  r4_filters(ctx)
  r6_fresh_policy(ctx)
  r7_presence(ctx)
  r8_complete_listing(ctx)


def _calls(node, name_suffix):
  return [c for c in flow.calls_in(node) if (dotted(c.func) or '').endswith(name_suffix)]


# ----------------------------------------------------------------------- R1
def r1_base_policy(ctx) -> None:
  ci = ctx.index.need_class(f'{DP}._SerializableDesignerPolicyBase')
  fi = ci.methods['suggest']
  g = cfgmod.CFG(fi.node)
  dom = g.dominators()

  def node_with(suffix):
    out = [n for n in g.nodes if any((dotted(c.func) or '').endswith(suffix) for c in flow.node_calls(n))]
    return out[0] if out else None

  init = node_with('._initialize_designer')
  upd = node_with('.designer.update')
  sug = node_with('.designer.suggest')
  dmp = node_with('self.dump')
  ok = all(x is not None for x in (init, upd, sug, dmp)) and init.id in dom[upd.id] and upd.id in dom[sug.id] \
      and sug.id in dom[dmp.id] and all(dmp.id in dom[p.id] or p is dmp for p, _ in g.exit.preds)
  ctx.check(ok, 'R1', 'order initialise -> update -> suggest -> dump', fi.node,
            'each step dominates the next and dump dominates the return',
            'the policy does not load/update/suggest/dump in this order on every path (state saved '
            'before suggest is stale; suggest before update misses trials)', construct='order', func=fi.qualname)
  if upd is None:
    return
  rd = flow.ReachingDefs(g)
  prov = flow.Provenance(g, rd, on_call=lambda c: 'args' if (dotted(c.func) or '').endswith(('CompletedTrials', 'ActiveTrials')) else 'stop')
  call = [c for c in flow.node_calls(upd) if (dotted(c.func) or '').endswith('.designer.update')][0]
  args = {k.arg: k.value for k in call.keywords}
  pos = list(call.args)
  comp = args.get('completed', pos[0] if pos else None)
  act = args.get('all_active', pos[1] if len(pos) > 1 else None)

  def single_source(e, suffix):
    if e is None:
      return False
    o = prov.origins(e, upd)
    calls = [v for k, v in o if k == 'call']
    return len(calls) == 1 and (dotted(calls[0].func) or '').endswith(suffix) and not any(
        k in ('param', 'iter') for k, _ in o)

  ctx.check(single_source(comp, '.get_newly_completed_trials'), 'R1', 'update(completed=...) is the loader result', call,
            'completed trials passed to the designer are exactly get_newly_completed_trials(max_trial_id)',
            'the completed trials given to Designer.update are not exactly what the de-duplicating loader returned',
            construct='completed-arg', func=fi.qualname)
  ctx.check(single_source(act, '.get_active_trials'), 'R1', 'update(all_active=...) is the loader result', call,
            'active trials passed to the designer are exactly get_active_trials()',
            'the active trials given to Designer.update are not exactly the loader\'s get_active_trials()',
            construct='active-arg', func=fi.qualname)
  # R5
  initf = ci.methods['_initialize_designer']
  ok5 = None
  for h in ast.walk(initf.node):
    if isinstance(h, ast.ExceptHandler) and h.type is not None and 'DecodeError' in unparse(h.type, 0):
      has_new = any(isinstance(x, ast.Assign) and any(dotted(t) == 'self._designer' for t in x.targets)
                    and isinstance(x.value, ast.Call) and (dotted(x.value.func) or '').endswith('_designer_factory')
                    for x in ast.walk(h))
      has_clear = any((dotted(c.func) or '') == 'self._cache.clear' for c in flow.calls_in(h))
      if has_new:
        ok5 = (ok5 is not False) and has_clear
  ok5 = bool(ok5)
  ctx.check(ok5, 'R5', 'DecodeError handler: new designer and cache.clear()', initf.node,
            'a designer that lost its state is given every completed trial again',
            'when the saved state cannot be decoded the designer is re-created but the incorporated-id cache '
            'is kept: the fresh designer never receives the trials completed so far',
            construct='decode-error', func=initf.qualname)
  # load restores the cache before the designer
  ld = ci.methods['load']
  gl = cfgmod.CFG(ld.node)
  c1 = [n for n in gl.nodes if any((dotted(c.func) or '') == 'self._cache.load' for c in flow.node_calls(n))]
  c2 = [n for n in gl.nodes if any((dotted(c.func) or '').endswith('_restore_designer') for c in flow.node_calls(n))]
  okl = bool(c1 and c2) and c1[0].id in gl.dominators()[c2[0].id]
  ctx.check(okl, 'R1', 'load: cache then designer', ld.node, 'cache.load dominates _restore_designer',
            'policy.load does not restore the id cache before (or at all with) the designer', construct='load-order', func=ld.qualname)


# ----------------------------------------------------------------------- R2
def r2_loader(ctx) -> None:
  ci = ctx.index.need_class(f'{TC}.IdDeduplicatingTrialLoader')
  field = '_incorporated_completed_trial_ids'
  writers = set()
  for m in ci.methods.values():
    for x in ast.walk(m.node):
      tg = []
      if isinstance(x, ast.Assign):
        tg = x.targets
      elif isinstance(x, (ast.AugAssign, ast.AnnAssign)):
        tg = [x.target]
      if any(dotted(t) == f'self.{field}' for t in tg):
        writers.add(m.name)
      if isinstance(x, ast.Call) and isinstance(x.func, ast.Attribute) and dotted(x.func.value) == f'self.{field}' \
          and x.func.attr in ('add', 'update', 'discard', 'remove', 'clear', 'pop', 'difference_update', 'intersection_update'):
        writers.add(m.name)
  allowed = {'clear', 'load', 'get_newly_completed_trials'}
  # a private helper that writes the set counts as the methods that call it (it is their code, moved)
  for _ in range(3):
    for w in [w for w in writers if w.startswith('_') and not w.startswith('__')]:
      callers = {m.name for m in ci.methods.values() if m.name != w and any(
          isinstance(c.func, ast.Attribute) and c.func.attr == w and isinstance(c.func.value, ast.Name) and c.func.value.id == 'self'
          for c in flow.calls_in(m.node))}
      if callers:
        writers.discard(w)
        writers |= callers
      elif w in getattr(ci.module.tree, '_vz_inlined', {}):
        # every call of the helper was inlined into its callers before analysis: their bodies carry the write now
        writers.discard(w)
  ctx.check(writers <= allowed and 'get_newly_completed_trials' in writers, 'R2', 'writers of the incorporated-id set', ci.node,
            f'written only by {sorted(writers)}',
            f'the incorporated-id set is also written by {sorted(writers - allowed)}', construct='writers', func=ci.qualname)
  f = ci.methods['get_newly_completed_trials']
  g = cfgmod.CFG(f.node)
  rd = flow.ReachingDefs(g)
  # the query
  q = [c for c in flow.calls_in(f.node) if (dotted(c.func) or '').endswith('.GetTrials')]
  if len(q) != 1:
    raise AnalysisError('get_newly_completed_trials: exactly one GetTrials expected')
  kw = {k.arg: k.value for k in q[0].keywords}
  st_ok = 'status_matches' in kw and (dotted(kw['status_matches']) or '').endswith('TrialStatus.COMPLETED')
  ctx.check(st_ok, 'R2', 'newly completed: status COMPLETED', q[0], 'status_matches=COMPLETED',
            'the loader does not ask for COMPLETED trials', construct='status', func=f.qualname)
  ids_ok = False
  if 'trial_ids' in kw:
    node = g.node_of(q[0])
    mpar = [p_ for p_ in f.params if p_ != 'self'][0]
    pths = pathcond.paths(g, [g.entry], node) if node is not None else []
    want_ids = {f'set(range(1, {mpar} + 1)) - self.{field}', f'set(range(1, {mpar} + 1)).difference(self.{field})',
                f'set(range(1, 1 + {mpar})) - self.{field}'}
    ids_ok = bool(pths) and all(unparse(pathcond.substitute_on_path(p_, kw['trial_ids']), 0) in want_ids for p_ in pths)
  ctx.check(ids_ok, 'R2', 'newly completed: ids = {1..max} - incorporated', q[0],
            'trial_ids = set(range(1, max_trial_id + 1)) - incorporated ids',
            'the id filter of the loader is not "all ids up to max_trial_id minus the incorporated ones"',
            construct='ids', func=f.qualname)
  # early "nothing to load" shortcuts: only the idiom that implies {1..max} == incorporated
  for n in ast.walk(f.node):
    if isinstance(n, ast.If) and any(isinstance(x, ast.Return) for x in n.body):
      t = n.test
      sound = isinstance(t, ast.Compare) and len(t.ops) == 1 and isinstance(t.ops[0], ast.Eq) and {
          unparse(t.left, 0), unparse(t.comparators[0], 0)} == {f'len(self.{field})', 'max_trial_id'}
      ctx.check(sound, 'R2', 'newly completed: early-return shortcut', n,
                'len(incorporated) == max_trial_id (with incorporated a subset of 1..max this implies nothing is missing)',
                f'the shortcut `{unparse(t, 60)}` returns no trials although ids up to max_trial_id may still be unincorporated '
                '(e.g. an older trial completed after a newer one was given): that trial is delivered late or never',
                construct='shortcut', func=f.qualname)
  # growth by exactly the returned trials
  ret = [n for n in ast.walk(f.node) if isinstance(n, ast.Return) and isinstance(n.value, ast.Name)]
  grow = [x for x in ast.walk(f.node) if isinstance(x, ast.AugAssign) and dotted(x.target) == f'self.{field}'
          and isinstance(x.op, ast.BitOr)]
  gok = False
  if ret and grow:
    rv = ret[-1].value.id
    comp = [y for y in ast.walk(grow[0].value) if isinstance(y, (ast.GeneratorExp, ast.SetComp, ast.ListComp))]
    if comp:
      gen = comp[0].generators[0]
      gok = isinstance(gen.iter, ast.Name) and gen.iter.id == rv and not gen.ifs and unparse(comp[0].elt, 0) == f'{gen.target.id}.id'
    # and the returned variable is the query result
    node = g.node_of(ret[-1])
    gok = gok and any(d.value is q[0] or (d.value is not None and any(c is q[0] for c in ast.walk(d.value)))
                      for d in rd.at(node, rv))
  ctx.check(gok, 'R2', 'incorporated set grows by exactly the returned trials', f.node,
            'set |= {t.id for t in <returned list>} and the returned list is the query result',
            'the ids recorded as incorporated are not exactly the ids of the trials returned to the designer '
            '(a trial is recorded without being delivered, or delivered without being recorded)',
            construct='growth', func=f.qualname)
  # active: ACTIVE and no id filter
  fa = ci.methods['get_active_trials']
  qa = [c for c in flow.calls_in(fa.node) if (dotted(c.func) or '').endswith('.GetTrials')]
  kwa = {k.arg: k.value for k in qa[0].keywords} if qa else {}
  oka = bool(qa) and (dotted(kwa.get('status_matches')) or '').endswith('TrialStatus.ACTIVE') \
      and not ({'trial_ids', 'min_trial_id', 'max_trial_id'} & set(kwa))
  ctx.check(oka, 'R2', 'active trials: status ACTIVE, no id filter', fa.node, 'GetTrials(status_matches=ACTIVE)',
            'get_active_trials does not return every ACTIVE trial', construct='active', func=fa.qualname)
  # dump/load same key
  def keys(fn):
    """Metadata keys the method touches: subscripts / membership tests on the metadata object (dump: the value it
    returns; load: its parameter), resolved to the constant they name."""
    carriers = {p for p in fn.params if p not in ('self', 'cls')}
    for x in ast.walk(fn.node):
      if isinstance(x, ast.Return) and isinstance(x.value, ast.Name):
        carriers.add(x.value.id)

    def key_of(e):
      v = e
      if isinstance(e, ast.Name) and e.id in fn.module.assigns:
        v = fn.module.assigns[e.id]
      return repr(v.value) if isinstance(v, ast.Constant) else unparse(e, 0)
    out = set()
    for x in ast.walk(fn.node):
      if isinstance(x, ast.Subscript) and isinstance(x.value, ast.Name) and x.value.id in carriers:
        out.add(key_of(x.slice))
      if isinstance(x, ast.Compare) and isinstance(x.ops[0], (ast.In, ast.NotIn)) and isinstance(x.comparators[0], ast.Name) \
          and x.comparators[0].id in carriers:
        out.add(key_of(x.left))
      if isinstance(x, ast.Call) and isinstance(x.func, ast.Attribute) and x.func.attr in ('get', 'get_or_error', 'pop') \
          and isinstance(x.func.value, ast.Name) and x.func.value.id in carriers and x.args:
        out.add(key_of(x.args[0]))
    return out
  kd, kl = keys(ci.methods['dump']), keys(ci.methods['load'])
  ctx.check(kd == kl and len(kd) == 1, 'R2', 'dump/load use one metadata key', ci.methods['dump'].node,
            f'key {sorted(kd)}', f'dump writes {sorted(kd)} but load reads {sorted(kl)}', construct='key', func=ci.qualname)
  dumps_field = any(dotted(x) == f'self.{field}' for x in ast.walk(ci.methods['dump'].node))
  ctx.check(dumps_field, 'R2', 'dump serialises the incorporated-id set', ci.methods['dump'].node, 'json list of the ids',
            'dump does not serialise the incorporated ids', construct='dump-field', func=ci.qualname)


# ----------------------------------------------------------------------- R3
def r3_stateless(ctx) -> None:
  ci = ctx.index.need_class(f'{DP}.DesignerPolicy')
  fi = ci.methods['suggest']
  fresh = any(isinstance(x, ast.Assign) and isinstance(x.value, ast.Call) and (dotted(x.value.func) or '') == 'self._designer_factory'
              and any(isinstance(t, ast.Name) for t in x.targets) for x in ast.walk(fi.node))
  ctx.check(fresh, 'R3', 'fresh designer per request', fi.node, 'designer = self._designer_factory(...) in suggest',
            'the stateless policy re-uses a designer between requests while feeding it all trials again',
            construct='fresh', func=fi.qualname)
  qs = [c for c in flow.calls_in(fi.node) if (dotted(c.func) or '').endswith('.GetTrials')]
  stat = {}
  for c in qs:
    kw = {k.arg: k.value for k in c.keywords}
    s = (dotted(kw.get('status_matches')) or '').rsplit('.', 1)[-1]
    stat[s] = not ({'trial_ids', 'min_trial_id', 'max_trial_id'} & set(kw))
  ctx.check(stat.get('COMPLETED') is True and stat.get('ACTIVE') is True, 'R3', 'all COMPLETED and all ACTIVE trials', fi.node,
            'GetTrials(COMPLETED) and GetTrials(ACTIVE) without id filters',
            f'queries are {stat}: the rebuilt designer does not receive the complete current trial set',
            construct='queries', func=fi.qualname)
  g = cfgmod.CFG(fi.node)
  prov = flow.Provenance(g, on_call=lambda c: 'args' if (dotted(c.func) or '').endswith(('CompletedTrials', 'ActiveTrials')) else 'stop')
  prov_recv = flow.Provenance(g)

  def from_factory(c) -> bool:
    nd = g.node_of(c)
    return nd is not None and any(k == 'call' and (dotted(v.func) or '') == 'self._designer_factory'
                                  for k, v in prov_recv.origins(c.func.value, nd))
  upd = [c for c in flow.calls_in(fi.node) if isinstance(c.func, ast.Attribute) and c.func.attr == 'update'
         and ((dotted(c.func) or '').endswith('designer.update') or from_factory(c))]
  ok = False
  if upd:
    node = g.node_of(upd[0])
    srcs = []
    kws = {k.arg: k.value for k in upd[0].keywords}
    for a in list(upd[0].args) + [kws[k] for k in ('completed', 'all_active') if k in kws]:
      o = prov.origins(a, node)
      for k, v in o:
        if k == 'call' and (dotted(v.func) or '').endswith('.GetTrials'):
          kw = {kk.arg: kk.value for kk in v.keywords}
          srcs.append((dotted(kw.get('status_matches')) or '').rsplit('.', 1)[-1])
    ok = srcs == ['COMPLETED', 'ACTIVE']
  ctx.check(ok, 'R3', 'update(completed, active) in that order', fi.node, 'update(CompletedTrials(completed), ActiveTrials(active))',
            'Designer.update does not receive (completed trials, active trials)', construct='update-args', func=fi.qualname)


# ----------------------------------------------------------------------- R6
def r6_fresh_policy(ctx) -> None:
  pf = ctx.index.need_class('vizier._src.service.policy_factory.DefaultPolicyFactory')
  stores = []
  for m in pf.methods.values():
    for x in ast.walk(m.node):
      tg = x.targets if isinstance(x, ast.Assign) else [x.target] if isinstance(x, (ast.AugAssign, ast.AnnAssign)) else []
      for t in tg:
        if flow.root_name(t) == 'self' and not isinstance(t, ast.Name):
          stores.append((m, x))
  ps = ctx.index.need_class('vizier._src.service.pythia_service.PythiaServicer')
  per_request = all(any((dotted(c.func) or '') == 'self._policy_factory' for c in flow.calls_in(ps.methods[n].node))
                    for n in ('Suggest', 'EarlyStop'))
  # the servicer keeps nothing either: no store into its own attributes while serving, and the policy that is asked
  # comes from the factory call of this request on every path
  kept = None
  for n in ('Suggest', 'EarlyStop'):
    m = ps.methods[n]
    for x in ast.walk(m.node):
      tg = x.targets if isinstance(x, ast.Assign) else [x.target] if isinstance(x, (ast.AugAssign, ast.AnnAssign)) else []
      for t in tg:
        if flow.root_name(t) == 'self' and not isinstance(t, ast.Name):
          kept = kept or (m, x)
      if isinstance(x, ast.Call) and isinstance(x.func, ast.Attribute) and flow.root_name(x.func.value) == 'self' \
          and x.func.attr in ('setdefault', 'append', 'add', 'update', 'move_to_end', 'popitem', 'pop', 'insert', 'extend') \
          and not isinstance(x.func.value, ast.Name):
        kept = kept or (m, x)
    g_ = cfgmod.CFG(m.node)
    rd_ = flow.ReachingDefs(g_)
    for node_ in g_.nodes:
      for c in flow.node_calls(node_):
        if isinstance(c.func, ast.Attribute) and c.func.attr in ('suggest', 'early_stop') and isinstance(c.func.value, ast.Name):
          for d in rd_.at(node_, c.func.value.id):
            v = d.value
            if not (isinstance(v, ast.Call) and (dotted(v.func) or '') == 'self._policy_factory'):
              kept = kept or (m, g_.nodes[d.node_id].ast if d.node_id >= 0 else m.node)
  ctx.check(kept is None, 'R6', 'PythiaServicer keeps no policy between requests', ps.node,
            'Suggest/EarlyStop write no attribute of the servicer; the policy asked is the one the factory built for this request',
            (f'`{unparse(kept[1], 70)}` in {kept[0].name}: a policy (with its designer and its record of delivered trials) outlives the request - '
             'after a failed request, or after the study was deleted and re-created, it no longer receives every completed trial exactly once')
            if kept else '', construct='servicer-state', func=ps.qualname)
  ctx.check(not stores and per_request, 'R6', 'DefaultPolicyFactory is stateless; PythiaServicer calls it per request', pf.node,
            'no attribute of the factory is written; Suggest/EarlyStop build their policy from the request',
            (f'the policy factory stores state on itself (`{unparse(stores[0][1], 70)}` in {stores[0][0].name}): a policy object (with its '
             'designer and trial cache) can outlive the request, so after a study is deleted and re-created under the same name '
             'the stale designer keeps suggesting for the old search space and never sees the new study\'s trials')
            if stores else 'PythiaServicer does not build the policy from the request',
            construct='factory-state', func=pf.qualname)


def _filter_model(call: FuncInfo):
  """TrialFilter.__call__ interpreted on a finite model (fields unset / empty / small sets and bounds 0 and 2 against
  trial ids 0..3 and two states): rows where the result differs from `every set field is satisfied`."""
  param = [p for p in call.params if p != 'self'][0]
  wrongs = []
  n_rows = 0
  hook = pathcond.method_hook({m.name: m.node for m in call.cls.methods.values()} if getattr(call, 'cls', None) else {})
  try:
    for ids in (None, frozenset(), frozenset({0}), frozenset({1, 3})):
      for lo in (None, 0, 2):
        for hi in (None, 0, 2):
          for status in (None, frozenset(), frozenset({'A'}), frozenset({'A', 'B'})):
            for tid in (0, 1, 2, 3):
              for tstat in ('A', 'C'):
                env = {'self.ids': ids, 'self.min_id': lo, 'self.max_id': hi, 'self.status': status,
                       f'{param}.id': tid, f'{param}.status': tstat, '__callhook__': hook}
                got = bool(pathcond.run_concrete(call.node, env))
                want_ = (ids is None or tid in ids) and (lo is None or tid >= lo) and (hi is None or tid <= hi) \
                    and (status is None or tstat in status)
                n_rows += 1
                env.pop('__callhook__')
                if got != want_:
                  wrongs.append((env, got))
  except pathcond.NoValue as e:
    raise AnalysisError(f'TrialFilter.__call__: cannot be evaluated on the finite model ({e})')
  return wrongs, n_rows


# ----------------------------------------------------------------------- R4
def r4_filters(ctx) -> None:
  sup = ctx.index.need_class('vizier._src.service.service_policy_supporter.ServicePolicySupporter')
  f = sup.methods['GetTrials']
  tf = [c for c in flow.calls_in(f.node) if (dotted(c.func) or '').endswith('TrialFilter')]
  if not tf:
    raise AnalysisError('ServicePolicySupporter.GetTrials: TrialFilter construction not found')
  kw = {k.arg: unparse(k.value, 0) for k in tf[0].keywords}
  want = {'ids': 'trial_ids', 'min_id': 'min_trial_id', 'max_id': 'max_trial_id'}
  for fld, arg in want.items():
    ctx.check(kw.get(fld) == arg, 'R4', f'ServicePolicySupporter: {arg} -> TrialFilter.{fld}', tf[0],
              'argument reaches the matching filter field',
              f'TrialFilter.{fld} is built from `{kw.get(fld)}` instead of `{arg}`', construct=fld, func=f.qualname)
  ctx.check('status_matches' in kw.get('status', '') and kw.get('status', '').startswith('[status_matches]'), 'R4',
            'ServicePolicySupporter: status_matches -> TrialFilter.status', tf[0], '[status_matches] if set',
            f'TrialFilter.status is `{kw.get("status")}`', construct='status', func=f.qualname)
  # the filter is applied to every trial of the study
  fvars = {t.id for x in ast.walk(f.node) if isinstance(x, ast.Assign) and x.value is tf[0] for t in x.targets if isinstance(t, ast.Name)}
  def _is_filter_call(e):
    return isinstance(e, ast.Call) and isinstance(e.func, ast.Name) and e.func.id in fvars and len(e.args) == 1
  applied = any(isinstance(x, (ast.ListComp, ast.GeneratorExp)) and x.generators[0].ifs
                and _is_filter_call(x.generators[0].ifs[0]) for x in ast.walk(f.node)) or any(
      isinstance(x, ast.Call) and dotted(x.func) == 'filter' and len(x.args) == 2 and isinstance(x.args[0], ast.Name)
      and x.args[0].id in fvars for x in ast.walk(f.node))
  # loop form: `for t in all: if not trial_filter(t): continue; ...; out.append(t)` - the only test in the loop that
  # decides whether the append is reached is the filter call, on its true side
  g = cfgmod.CFG(f.node)
  loop_selecting_ok = None
  for hdr in [n for n in g.nodes if n.kind == 'for']:
    apps = [n for n in g.nodes if n.loops and n.loops[-1] is hdr.ast and any(
        isinstance(c.func, ast.Attribute) and c.func.attr == 'append' for c in flow.node_calls(n))]
    if not apps or not isinstance(hdr.ast.target, ast.Name):
      continue
    a_ = apps[0]
    selecting = []
    for t in [n for n in g.nodes if n.kind == 'test' and n.loops and n.loops[-1] is hdr.ast]:
      reach = {lab: a_ in g.reachable([m for m, l2 in t.succs if l2 == lab], blocked=[hdr], include_starts=True) for lab in ('T', 'F')}
      if reach['T'] != reach['F']:
        selecting.append((t, 'T' if reach['T'] else 'F'))
    def is_filter_test(t, lab):
      e, pol = t.ast, lab == 'T'
      while isinstance(e, ast.UnaryOp) and isinstance(e.op, ast.Not):
        e, pol = e.operand, not pol
      return pol and _is_filter_call(e) and isinstance(e.args[0], ast.Name) and e.args[0].id == hdr.ast.target.id
    loop_selecting_ok = bool(selecting) and all(is_filter_test(t, lab) for t, lab in selecting)
  if loop_selecting_ok:
    applied = True
  ctx.check(applied, 'R4', 'ServicePolicySupporter: filter applied to all listed trials', f.node, '[t for t in all if trial_filter(t)]',
            'the constructed filter is not applied to the listed trials', construct='applied', func=f.qualname)
  # nothing but the TrialFilter decides: converted list == every listed trial
  prov = flow.Provenance(g, on_call=lambda c: 'stop', on_attr=lambda a: 'through')
  conv = [c for c in flow.calls_in(f.node) if (dotted(c.func) or '').endswith('TrialConverter.from_protos')]
  direct = False
  if conv and conv[0].args:
    o = prov.origins(conv[0].args[0], g.node_of(conv[0]))
    calls = [v for k, v in o if k == 'call']
    direct = len(calls) == 1 and (dotted(calls[0].func) or '').endswith('.ListTrials') and not any(k == 'iter' for k, _ in o)
  only_filter = all(len(x.generators[0].ifs) == 1 and _is_filter_call(x.generators[0].ifs[0])
                    for x in ast.walk(f.node) if isinstance(x, (ast.ListComp, ast.GeneratorExp)) and x.generators[0].ifs)
  if loop_selecting_ok is False:
    only_filter = False
  ctx.check(direct and only_filter, 'R4', 'ServicePolicySupporter: no selection besides the TrialFilter', f.node,
            'every listed trial is converted; only trial_filter(t) selects',
            'trials are pre-selected before the exact TrialFilter runs (e.g. by HasField(final_measurement)): completed trials '
            'that do not satisfy the extra test (infeasible trials without a measurement) become invisible to every algorithm',
            construct='preselect', func=f.qualname)
  # TrialFilter.__call__ tests every field
  tfc = ctx.index.need_class('vizier._src.pyvizier.shared.trial.TrialFilter')
  call = tfc.methods['__call__']
  # decided on a finite model: every combination of unset / set filter fields against trial ids and states
  # around the bounds; the filter must select exactly the trials that satisfy every set field
  wrongs, n_rows = _filter_model(call)
  wrong = min(wrongs, key=lambda w: sum(v is not None for k, v in w[0].items() if k.startswith('self.'))) if wrongs else None
  ctx.count('trial_filter_model_rows', n_rows)
  for fld in ('ids', 'min_id', 'max_id', 'status'):
    bad_here = wrong is not None and (wrong[0][f'self.{fld}'] is not None)
    ctx.check(not bad_here, 'R4', f'TrialFilter applies {fld}', call.node,
              f'selects exactly the trials satisfying every set field ({n_rows} model rows)',
              f'TrialFilter.__call__ {"selects" if wrong and wrong[1] else "rejects"} a trial it should not: '
              + (', '.join(f'{k}={sorted(v) if isinstance(v, frozenset) else v}' for k, v in wrong[0].items()) if wrong else ''),
              construct=fld, func=call.qualname)
  # in-RAM supporter: interpreted on the same kind of finite model (the selection loop runs over model trials)
  import types as _types
  ram = ctx.index.need_class('vizier._src.pythia.local_policy_supporters.InRamPolicySupporter')
  fr = ram.methods['GetTrials']
  kw = [a.arg for a in fr.node.args.kwonlyargs] + [p_ for p_ in fr.params if p_ != 'self']
  need = {'trial_ids', 'min_trial_id', 'max_trial_id', 'status_matches'}
  if not need <= set(kw):
    raise AnalysisError(f'InRamPolicySupporter.GetTrials: parameters {sorted(need - set(kw))} missing')
  trials = [_types.SimpleNamespace(id=i, status=st_) for i in (0, 1, 2, 3) for st_ in ('A', 'C')]
  wrong2 = None
  rows2 = 0
  try:
    for ids in (None, [], [0], [1, 3]):
      for lo in (None, 0, 2):
        for hi in (None, 0, 2):
          for status in (None, 'A'):
            env = {k_: None for k_ in kw}
            env.update({'trial_ids': ids, 'min_trial_id': lo, 'max_trial_id': hi, 'status_matches': status,
                        'include_intermediate_measurements': True, 'self.trials': list(trials), 'self.study_guid': 'g'})
            got = pathcond.run_concrete(fr.node, env, tolerant=True)
            rows2 += 1
            want_ = [t for t in trials if (ids is None or t.id in ids) and (lo is None or t.id >= lo) and (hi is None or t.id <= hi)
                     and (status is None or t.status == status)]
            if not isinstance(got, list):
              raise pathcond.NoValue('GetTrials did not return the list it built')
            if got != want_ and wrong2 is None:
              wrong2 = (dict(trial_ids=ids, min_trial_id=lo, max_trial_id=hi, status_matches=status),
                        [(t.id, t.status) for t in got], [(t.id, t.status) for t in want_])
  except pathcond.NoValue as e:
    raise AnalysisError(f'InRamPolicySupporter.GetTrials: cannot be evaluated on the finite model ({e})')
  ctx.count('inram_gettrials_model_rows', rows2)
  ctx.check(wrong2 is None, 'R4', 'InRamPolicySupporter.GetTrials applies every filter', fr.node, f'status / min / max / ids ({rows2} model rows)',
            (f'with {wrong2[0]} the supporter returns {wrong2[1]} instead of {wrong2[2]}' if wrong2 else ''),
            construct='inram-filters', func=fr.qualname)


# ----------------------------------------------------------------------- R7
def _presence_tests(fn: ast.AST, subject: str) -> List[Tuple[ast.AST, bool]]:
  """(test node, ok?) for every condition deciding on `subject` alone: ok iff it is an `is (not) None` comparison."""
  out = []
  for x in ast.walk(fn):
    t = x.test if isinstance(x, (ast.If, ast.IfExp, ast.While)) else None
    if t is None:
      continue
    parts = t.values if isinstance(t, ast.BoolOp) else [t]
    for p_ in parts:
      q = p_.operand if isinstance(p_, ast.UnaryOp) and isinstance(p_.op, ast.Not) else p_
      if unparse(q, 0) == subject:
        out.append((p_, False))
      elif isinstance(q, ast.Compare) and unparse(q.left, 0) == subject and len(q.ops) == 1 \
          and isinstance(q.ops[0], (ast.Is, ast.IsNot)) and isinstance(q.comparators[0], ast.Constant) and q.comparators[0].value is None:
        out.append((p_, True))
  return out


def r7_presence(ctx) -> None:
  tfc = ctx.index.need_class('vizier._src.pyvizier.shared.trial.TrialFilter')
  mod = tfc.module
  n = 0
  # (a) converters of the set-valued fields
  for st in tfc.node.body:
    if not (isinstance(st, ast.AnnAssign) and isinstance(st.target, ast.Name) and isinstance(st.value, ast.Call)):
      continue
    fld = st.target.id
    if 'FrozenSet' not in unparse(st.annotation, 0) and 'Set' not in unparse(st.annotation, 0):
      continue
    conv = next((k.value for k in st.value.keywords if k.arg == 'converter'), None)
    if conv is None:
      continue
    fn = None
    param = None
    if isinstance(conv, ast.Lambda):
      fn, param = conv, conv.args.args[0].arg
    elif isinstance(conv, ast.Name) and conv.id in mod.functions:
      f = mod.functions[conv.id]
      fn, param = f.node, f.params[0]
    if fn is None:
      raise AnalysisError(f'TrialFilter.{fld}: converter `{unparse(conv, 40)}` not resolved')
    tests = _presence_tests(fn, param)
    n += 1
    bad = [t for t, ok in tests if not ok]
    ctx.check(bool(tests) and not bad, 'R7', f'TrialFilter.{fld} converter', st,
              'None <-> no filter decided by `is None`',
              f'the converter of TrialFilter.{fld} decides "no filter" by the truthiness of its argument (`{unparse(bad[0], 40) if bad else "?"}`): '
              'an *empty* set - e.g. "every id above the incorporated ones" when the newest trials were deleted - turns into None, and the '
              'filter then matches every trial: completed trials are delivered to the algorithm a second time',
              construct=f'{fld}:truthy-converter', func=tfc.qualname)
  # (b) __call__ and the in-RAM supporter
  call = tfc.methods['__call__']
  wrongs, _ = _filter_model(call)
  for fld in ('ids', 'min_id', 'max_id', 'status'):
    # rows where the field is set to a falsy value (empty set, id 0) and every other field is unset
    bad = [w for w in wrongs if w[0][f'self.{fld}'] is not None and not w[0][f'self.{fld}']
           and all(v is None for k, v in w[0].items() if k.startswith('self.') and k != f'self.{fld}')]
    n += 1
    ctx.check(not bad, 'R7', f'TrialFilter.__call__: presence of {fld}', call.node,
              'a field set to an empty set / to id 0 still filters (finite model)',
              f'`self.{fld}` set to {"an empty set" if fld in ("ids", "status") else "0"} is treated as "not set": '
              'the filter then matches trials it must reject', construct=f'{fld}:truthy-call', func=call.qualname)
  ram = ctx.index.need_class('vizier._src.pythia.local_policy_supporters.InRamPolicySupporter')
  fr = ram.methods['GetTrials']
  for arg in ('trial_ids', 'min_trial_id', 'max_trial_id'):
    tests = _presence_tests(fr.node, arg)
    bad = [t for t, ok in tests if not ok]
    n += 1
    ctx.check(bool(tests) and not bad, 'R7', f'InRamPolicySupporter.GetTrials: presence of {arg}', fr.node,
              '`is not None`', f'`{arg}` is tested by truthiness: an empty id collection / id 0 counts as "no filter"',
              construct=f'{arg}:truthy-ram', func=fr.qualname)
  sup = ctx.index.need_class('vizier._src.service.service_policy_supporter.ServicePolicySupporter')
  f = sup.methods['GetTrials']
  for arg in ('trial_ids', 'min_trial_id', 'max_trial_id'):
    tests = _presence_tests(f.node, arg)
    bad = [t for t, ok in tests if not ok]
    ctx.check(not bad, 'R7', f'ServicePolicySupporter.GetTrials: presence of {arg}', f.node,
              'passed through unchanged (or tested with `is None`)',
              f'`{arg}` is tested by truthiness before it reaches the TrialFilter', construct=f'{arg}:truthy-svc', func=f.qualname)


# ----------------------------------------------------------------------- R8
def r8_complete_listing(ctx) -> None:
  from vzstatic.svc import Svc
  svc = Svc(ctx)
  fi = svc.rpcs.get('ListTrials')
  if fi is None:
    raise AnalysisError('ListTrials RPC not found')
  resp = [c for c in flow.calls_in(fi.node) if (dotted(c.func) or '').endswith('ListTrialsResponse')]
  if not resp:
    raise AnalysisError('ListTrials: response construction not found')
  g = cfgmod.CFG(fi.node)
  prov = flow.Provenance(g, on_call=lambda c: 'all', on_attr=lambda a: 'through')
  paged = any(isinstance(x, (ast.Assign, ast.AugAssign)) and any('next_page_token' in unparse(t, 0) for t in (x.targets if isinstance(x, ast.Assign) else [x.target]))
              for x in ast.walk(fi.node)) or any(k.arg == 'next_page_token' for c in resp for k in c.keywords)
  sliced = None
  full = False
  for c in resp:
    for k in c.keywords:
      if k.arg == 'trials':
        o = prov.origins(k.value, g.node_of(c))
        full = full or any(kk == 'call' and svc.ds_call(v) == 'list_trials' for kk, v in o)
        for x in ast.walk(k.value):
          if isinstance(x, ast.Subscript) and isinstance(x.slice, ast.Slice):
            sliced = x
        for nm in flow.names_in(k.value):
          for d in prov.rd.at(g.node_of(c), nm):
            if d.value is not None:
              for x in ast.walk(d.value):
                if isinstance(x, ast.Subscript) and isinstance(x.slice, ast.Slice):
                  sliced = x
                if isinstance(x, ast.Call) and (dotted(x.func) or '').endswith('islice'):
                  sliced = x
  callers_follow = True
  if paged or sliced is not None:
    for q in ('vizier._src.service.service_policy_supporter', 'vizier._src.service.vizier_client'):
      mi = ctx.index.need_module(q)
      for fn in [f for f in ast.walk(mi.tree) if isinstance(f, ast.FunctionDef)]:
        if any(isinstance(c, ast.Call) and isinstance(c.func, ast.Attribute) and c.func.attr == 'ListTrials' for c in ast.walk(fn)):
          if 'next_page_token' not in unparse(fn, 0):
            callers_follow = False
  ctx.check(full and (sliced is None and not paged or callers_follow), 'R8', 'ListTrials returns every stored trial', fi.node,
            'response.trials is the complete datastore listing',
            ('ListTrials returns one page (`' + (unparse(sliced, 40) if sliced is not None else 'next_page_token') + '`) but the policy supporter / client '
             'read a single response and never follow next_page_token: trials beyond the first page are never delivered to '
             'the algorithm (neither as active nor as completed)') if full else 'response.trials does not derive from datastore.list_trials',
            construct='paged-listing', func=fi.qualname)


_DP = 'vizier/_src/algorithms/policies/designer_policy.py'
_TC = 'vizier/_src/algorithms/policies/trial_caches.py'
VARIANTS = [
    Variant('swap-active-completed-status', _TC, 'status_matches=vz.TrialStatus.ACTIVE,', 'status_matches=vz.TrialStatus.COMPLETED,', rule='R2'),
    Variant('dump-before-suggest', _DP,
            """    suggestions = pythia.SuggestDecision(
        self.designer.suggest(request.count), metadata=metadata_delta
    )
    metadata_delta.on_study.ns(self._ns_root).attach(self.dump())""",
            """    metadata_delta.on_study.ns(self._ns_root).attach(self.dump())
    suggestions = pythia.SuggestDecision(
        self.designer.suggest(request.count), metadata=metadata_delta
    )""", rule='R1'),
    Variant('grow-from-other-list', _TC, 'self._incorporated_completed_trial_ids |= set(t.id for t in new_trials)',
            'self._incorporated_completed_trial_ids |= set(trial_ids_to_load)', rule='R2'),
    Variant('drop-cache-clear', _DP, '      self._cache.clear()\n\n  def dump', '\n  def dump', rule='R5'),
    Variant('filter-completed-before-update', _DP,
            '        completed=vza.CompletedTrials(new_completed_trials),',
            '        completed=vza.CompletedTrials([t for t in new_completed_trials if not t.infeasible]),', rule='R1'),
    Variant('supporter-min-max-swapped', 'vizier/_src/service/service_policy_supporter.py',
            '        min_id=min_trial_id,\n        max_id=max_trial_id,', '        min_id=max_trial_id,\n        max_id=min_trial_id,', rule='R4'),
    Variant('stateless-only-completed', _DP,
            '    active = self._supporter.GetTrials(status_matches=vz.TrialStatus.ACTIVE)',
            '    active = []', rule='R3'),
    Variant('benign-rename', _TC, 'trial_ids_to_load', 'wanted_ids', expect='silent', count=2),
]
